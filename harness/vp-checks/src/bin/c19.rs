//! C19 — bit-packed mask primitives are exact at every bit offset and length (Vec<bool> model).
use arrow_buffer::bit_chunk_iterator::{BitChunks, UnalignedBitChunk};
use arrow_buffer::bit_iterator::{BitIndexIterator, BitIndexU32Iterator, BitIterator, BitSliceIterator};
use arrow_buffer::buffer::{
    bitwise_bin_op_helper, bitwise_quaternary_op_helper, bitwise_unary_op_helper, buffer_bin_and, buffer_bin_and_not,
    buffer_bin_or, buffer_bin_xor, buffer_unary_not,
};
use arrow_buffer::{bit_mask, bit_util, BooleanBuffer, BooleanBufferBuilder, Buffer, MutableBuffer, NullBuffer, NullBufferBuilder};
use serde_json::json;
use vp_engine::runner::*;
use vp_engine::tape::Tape;
use vp_engine::ensure;

const OFFS: [usize; 15] = [0, 1, 7, 8, 9, 31, 32, 33, 63, 64, 65, 127, 128, 129, 130];

fn getb(d: &[u8], i: usize) -> bool {
    d[i / 8] >> (i % 8) & 1 == 1
}
fn setb(d: &mut [u8], i: usize, v: bool) {
    if v {
        d[i / 8] |= 1 << (i % 8)
    } else {
        d[i / 8] &= !(1 << (i % 8))
    }
}
fn bits(d: &[u8], off: usize, len: usize) -> Vec<bool> {
    (0..len).map(|i| getb(d, off + i)).collect()
}

/// Region of `nbytes` bytes inside a larger allocation so that the base pointer has alignment `align_off` mod 64.
fn buffer_at(bytes: &[u8], align_off: usize) -> Buffer {
    let mut v = vec![0xA5u8; align_off];
    v.extend_from_slice(bytes);
    v.extend_from_slice(&[0x5Au8; 3]);
    Buffer::from_vec(v).slice_with_length(align_off, bytes.len())
}

#[derive(Clone, Copy, Debug)]
enum Content {
    Zero,
    One,
    Alt,
    Single,
    Random,
    /// all ones except one zero (the shape `has_false`-style block folds must not miss)
    SingleZero,
    /// all ones except up to three zeros
    FewZeros,
    /// all zeros except up to three ones
    FewOnes,
}
fn content_of(i: usize) -> Content {
    [Content::Random, Content::Zero, Content::One, Content::Alt, Content::Single][i % 5]
}
/// random geometry additionally draws the sparse contents (the grid keeps its original enumeration)
fn content_random(t: &mut Tape) -> Content {
    match t.below(8) {
        5 => Content::SingleZero,
        6 => Content::FewZeros,
        7 => Content::FewOnes,
        i => content_of(i),
    }
}

/// bytes covering off+len (+ slack), logical range filled per `c`, surroundings random
fn make_bytes(t: &mut Tape, off: usize, len: usize, c: Content, slack: usize) -> Vec<u8> {
    let n = (off + len).div_ceil(8) + slack;
    let mut d: Vec<u8> = (0..n).map(|_| t.u8() ^ 0x3c).collect();
    let which = t.below(len.max(1));
    let few: Vec<usize> = if matches!(c, Content::FewZeros | Content::FewOnes) { (0..1 + t.below(3)).map(|_| t.below(len.max(1))).collect() } else { vec![] };
    for i in 0..len {
        let v = match c {
            Content::SingleZero => i != which,
            Content::FewZeros => !few.contains(&i),
            Content::FewOnes => few.contains(&i),
            Content::Zero => false,
            Content::One => true,
            Content::Alt => i % 2 == 0,
            Content::Single => i == which || i + 1 == len && which == 0,
            Content::Random => getb(&d, off + i),
        };
        setb(&mut d, off + i, v);
    }
    d
}

#[derive(Clone, Copy, Debug)]
enum BinOp {
    And,
    Or,
    Xor,
    OrNot,
    Nand,
    CopyB,
    AndNot,
}
const BINOPS: [BinOp; 7] = [BinOp::And, BinOp::Or, BinOp::Xor, BinOp::OrNot, BinOp::Nand, BinOp::CopyB, BinOp::AndNot];
impl BinOp {
    fn w(self, a: u64, b: u64) -> u64 {
        match self {
            BinOp::And => a & b,
            BinOp::Or => a | b,
            BinOp::Xor => a ^ b,
            BinOp::OrNot => a | !b,
            BinOp::Nand => !(a & b),
            BinOp::CopyB => b,
            BinOp::AndNot => a & !b,
        }
    }
    fn b(self, a: bool, b: bool) -> bool {
        self.w(a as u64, b as u64) & 1 == 1
    }
}

struct Geo {
    off1: usize,
    off2: usize,
    len: usize,
    c1: Content,
    c2: Content,
}
fn geo_random(t: &mut Tape) -> Geo {
    let off1 = if t.bool() { *t.pick(&OFFS) } else { t.below(131) };
    let off2 = if t.bool() { *t.pick(&OFFS) } else { t.below(131) };
    let len = match t.below(8) {
        0 => *t.pick(&[0usize, 1, 2, 63, 64, 65, 127, 128, 129, 191, 192, 193, 200]),
        1 => 200 + t.below(2000),
        2 => 1000 + t.below(9000),
        _ => t.below(201),
    };
    Geo { off1, off2, len, c1: content_random(t), c2: content_random(t) }
}
/// grid enumeration: index -> (len 0..=200, off1 in OFFS, off2 in OFFS(subset), content 0..3)
fn geo_grid(idx: u64, t: &mut Tape) -> Geo {
    let _ = t.u64();
    let len = (idx % 201) as usize;
    let r = idx / 201;
    let off1 = OFFS[(r % 15) as usize];
    let r = r / 15;
    let c = (r % 3) as usize;
    let r = r / 3;
    let off2 = OFFS[(r % 15) as usize];
    Geo { off1, off2, len, c1: content_of(c), c2: content_of(c + 1) }
}
fn geo(c: &mut Case, grid: bool) -> Geo {
    let g = if grid { geo_grid(c.index, &mut c.tape) } else { geo_random(&mut c.tape) };
    if g.len > 0 && (g.off1 % 8 != 0 || g.off1 % 64 != g.off2 % 64) && matches!(g.c1, Content::Random | Content::Alt | Content::Single | Content::SingleZero | Content::FewZeros | Content::FewOnes) {
        c.nontrivial();
    }
    c.class(if g.off1 % 8 == 0 { "off1-byte-aligned" } else { "off1-unaligned" });
    c.class(if g.off1 % 64 == g.off2 % 64 { "same-word-alignment" } else { "diff-word-alignment" });
    c.class(match g.len {
        0 => "len0",
        1..=63 => "len<64",
        64..=200 => "len64-200",
        _ => "len>200",
    });
    c.describe(json!({"off1": g.off1, "off2": g.off2, "len": g.len, "content1": format!("{:?}", g.c1), "content2": format!("{:?}", g.c2)}));
    g
}

fn cmp_bits(what: &str, got: &BooleanBuffer, want: &[bool]) -> CaseResult {
    ensure!(got.len() == want.len(), format!("{}:len", what), "{}: len {} != {}", what, got.len(), want.len());
    for (i, w) in want.iter().enumerate() {
        ensure!(got.value(i) == *w, format!("{}:bit", what), "{}: bit {} is {} expected {} (offset {} len {})", what, i, got.value(i), w, got.offset(), got.len());
    }
    Ok(())
}
fn cmp_buf(what: &str, got: &Buffer, want: &[bool]) -> CaseResult {
    ensure!(got.len() * 8 >= want.len(), format!("{}:len", what), "{}: buffer of {} bytes for {} bits", what, got.len(), want.len());
    for (i, w) in want.iter().enumerate() {
        ensure!(getb(got.as_slice(), i) == *w, format!("{}:bit", what), "{}: bit {} expected {}", what, i, w);
    }
    Ok(())
}

// -------------------------------------------------------------------------------------------
pub fn sub_boolean_buffer(c: &mut Case, grid: bool) -> CaseResult {
    let g = geo(c, grid);
    let t = &mut c.tape;
    let slack1 = t.below(3);
    let d1 = make_bytes(t, g.off1, g.len, g.c1, slack1);
    let slack2 = t.below(3);
    let d2 = make_bytes(t, g.off2, g.len, g.c2, slack2);
    let al1 = *t.pick(&[0usize, 8, 1, 3, 4, 64, 7]);
    let al2 = *t.pick(&[0usize, 8, 1, 3, 4, 64, 7]);
    let m1 = bits(&d1, g.off1, g.len);
    let m2 = bits(&d2, g.off2, g.len);
    let b1 = buffer_at(&d1, al1);
    let b2 = buffer_at(&d2, al2);
    let bb1 = no_panic("BooleanBuffer::new", || BooleanBuffer::new(b1.clone(), g.off1, g.len))?;
    let bb2 = no_panic("BooleanBuffer::new", || BooleanBuffer::new(b2.clone(), g.off2, g.len))?;
    let len = g.len;
    let ones = m1.iter().filter(|x| **x).count();

    no_panic("read-ops", || -> CaseResult {
        cmp_bits("new", &bb1, &m1)?;
        ensure!(bb1.count_set_bits() == ones, "count_set_bits", "count_set_bits {} != {}", bb1.count_set_bits(), ones);
        ensure!(b1.count_set_bits_offset(g.off1, len) == ones, "count_set_bits_offset", "count_set_bits_offset");
        ensure!(bb1.has_true() == (ones > 0), "has_true", "has_true {} with {} ones of {}", bb1.has_true(), ones, len);
        ensure!(bb1.has_false() == (ones < len), "has_false", "has_false {} with {} ones of {}", bb1.has_false(), ones, len);
        let it: Vec<bool> = bb1.iter().collect();
        ensure!(it == m1, "iter", "iter differs");
        let idx: Vec<usize> = bb1.set_indices().collect();
        let want_idx: Vec<usize> = (0..len).filter(|i| m1[*i]).collect();
        ensure!(idx == want_idx, "set_indices", "set_indices {:?} != {:?}", idx, want_idx);
        let idx32: Vec<u32> = bb1.set_indices_u32().collect();
        ensure!(idx32.iter().map(|x| *x as usize).collect::<Vec<_>>() == want_idx, "set_indices_u32", "set_indices_u32 differs");
        let sl: Vec<(usize, usize)> = bb1.set_slices().collect();
        let mut want_sl = vec![];
        let mut i = 0;
        while i < len {
            if m1[i] {
                let s = i;
                while i < len && m1[i] {
                    i += 1
                }
                want_sl.push((s, i));
            } else {
                i += 1
            }
        }
        ensure!(sl == want_sl, "set_slices", "set_slices {:?} != {:?}", sl, want_sl);
        // equality
        let same = BooleanBuffer::from(m1.clone());
        ensure!(bb1 == same && same == bb1, "eq", "== false for equal bits");
        ensure!((bb1 == bb2) == (m1 == m2), "eq", "== gives {} but models equal = {}", bb1 == bb2, m1 == m2);
        if len > 0 {
            let mut p = m1.clone();
            let k = len - 1;
            p[k] = !p[k];
            ensure!(bb1 != BooleanBuffer::from(p), "eq", "== true for buffers differing in last bit");
        }
        // bit_chunks
        let ch = bb1.bit_chunks();
        let mut rebuilt = vec![];
        for w in ch.iter() {
            for k in 0..64 {
                rebuilt.push(w >> k & 1 == 1)
            }
        }
        let rem = ch.remainder_bits();
        for k in 0..ch.remainder_len() {
            rebuilt.push(rem >> k & 1 == 1)
        }
        ensure!(rebuilt == m1, "bit_chunks", "bit_chunks reconstruct differs");
        ensure!(ch.remainder_len() == 64 || rem >> ch.remainder_len() == 0, "bit_chunks:remainder-padding", "remainder has bits above remainder_len");
        let padded: Vec<u64> = ch.iter_padded().collect();
        ensure!(padded.len() == len / 64 + 1, "iter_padded", "iter_padded count");
        let bc2 = b1.bit_chunks(g.off1, len);
        ensure!(bc2.iter().collect::<Vec<_>>() == ch.iter().collect::<Vec<_>>() && bc2.remainder_bits() == rem, "Buffer::bit_chunks", "differs");
        Ok(())
    })??;
    c.evals(10);

    // find_nth
    no_panic("find_nth_set_bit_position", || -> CaseResult {
        for _ in 0..4 {
            let start = c.tape.below(len + 1);
            let n = c.tape.below(ones + 3);
            let got = bb1.find_nth_set_bit_position(start, n);
            let want = if n == 0 {
                start
            } else {
                let mut k = 0;
                let mut r = len;
                for i in start..len {
                    if m1[i] {
                        k += 1;
                        if k == n {
                            r = i + 1;
                            break;
                        }
                    }
                }
                r
            };
            ensure!(got == want, "find_nth", "find_nth_set_bit_position({},{}) = {} expected {}", start, n, got, want);
        }
        Ok(())
    })??;

    // slicing
    no_panic("slice", || -> CaseResult {
        let so = c.tape.below(len + 1);
        let sl = c.tape.below(len - so + 1);
        let s = bb1.slice(so, sl);
        cmp_bits("slice", &s, &m1[so..so + sl])?;
        ensure!(s.count_set_bits() == m1[so..so + sl].iter().filter(|x| **x).count(), "slice:count", "count after slice");
        let sb = s.sliced();
        cmp_buf("sliced", &sb, &m1[so..so + sl])?;
        let bs = b1.bit_slice(g.off1 + so, sl);
        cmp_buf("Buffer::bit_slice", &bs, &m1[so..so + sl])?;
        let s2 = s.slice(0, sl);
        ensure!(s2 == s, "slice:eq", "slice(0,len) != self");
        Ok(())
    })??;

    // constructors from bits / unary op
    no_panic("from_bits", || -> CaseResult {
        let r = BooleanBuffer::from_bits(b1.as_slice(), g.off1, len);
        cmp_bits("from_bits", &r, &m1)?;
        let r = BooleanBuffer::from_bits(&d1, g.off1, len);
        cmp_bits("from_bits(vec)", &r, &m1)?;
        let notm: Vec<bool> = m1.iter().map(|x| !x).collect();
        let r = BooleanBuffer::from_bitwise_unary_op(b1.as_slice(), g.off1, len, |a| !a);
        cmp_bits("from_bitwise_unary_op(!)", &r, &notm)?;
        ensure!(r.count_set_bits() == len - ones, "from_bitwise_unary_op:count", "count of not");
        let r = !&bb1;
        cmp_bits("Not", &r, &notm)?;
        let r = buffer_unary_not(&b1, g.off1, len);
        cmp_buf("buffer_unary_not", &r, &notm)?;
        let r = bitwise_unary_op_helper(&b1, g.off1, len, |a| !a);
        cmp_buf("bitwise_unary_op_helper", &r, &notm)?;
        // collect_bool / new_set / new_unset / from iter
        let r = BooleanBuffer::collect_bool(len, |i| m1[i]);
        cmp_bits("collect_bool", &r, &m1)?;
        let r = MutableBuffer::collect_bool(len, |i| m1[i]);
        cmp_buf("MutableBuffer::collect_bool", &r.into(), &m1)?;
        let r = BooleanBuffer::new_set(len);
        ensure!(r.len() == len && r.count_set_bits() == len && !r.has_false(), "new_set", "new_set");
        let r = BooleanBuffer::new_unset(len);
        ensure!(r.len() == len && r.count_set_bits() == 0 && !r.has_true(), "new_unset", "new_unset");
        let r: BooleanBuffer = m1.iter().copied().collect();
        cmp_bits("from_iter", &r, &m1)?;
        Ok(())
    })??;
    c.evals(12);

    // binary ops
    for op in BINOPS {
        let want: Vec<bool> = (0..len).map(|i| op.b(m1[i], m2[i])).collect();
        no_panic("binary", || -> CaseResult {
            let r = BooleanBuffer::from_bitwise_binary_op(b1.as_slice(), g.off1, b2.as_slice(), g.off2, len, |a, b| op.w(a, b));
            cmp_bits(&format!("from_bitwise_binary_op({:?})", op), &r, &want)?;
            let r = bitwise_bin_op_helper(&b1, g.off1, &b2, g.off2, len, |a, b| op.w(a, b));
            cmp_buf(&format!("bitwise_bin_op_helper({:?})", op), &r, &want)?;
            Ok(())
        })??;
        c.evals(2);
    }
    no_panic("operators", || -> CaseResult {
        let and: Vec<bool> = (0..len).map(|i| m1[i] & m2[i]).collect();
        let or: Vec<bool> = (0..len).map(|i| m1[i] | m2[i]).collect();
        let xor: Vec<bool> = (0..len).map(|i| m1[i] ^ m2[i]).collect();
        let andnot: Vec<bool> = (0..len).map(|i| m1[i] & !m2[i]).collect();
        cmp_bits("BitAnd", &(&bb1 & &bb2), &and)?;
        cmp_bits("BitOr", &(&bb1 | &bb2), &or)?;
        cmp_bits("BitXor", &(&bb1 ^ &bb2), &xor)?;
        cmp_buf("buffer_bin_and", &buffer_bin_and(&b1, g.off1, &b2, g.off2, len), &and)?;
        cmp_buf("buffer_bin_or", &buffer_bin_or(&b1, g.off1, &b2, g.off2, len), &or)?;
        cmp_buf("buffer_bin_xor", &buffer_bin_xor(&b1, g.off1, &b2, g.off2, len), &xor)?;
        cmp_buf("buffer_bin_and_not", &buffer_bin_and_not(&b1, g.off1, &b2, g.off2, len), &andnot)?;
        // quaternary: (a & b) | (c ^ d) with c = b1 shifted view, d = b2
        let q = bitwise_quaternary_op_helper([&b1, &b2, &b2, &b1], [g.off1, g.off2, g.off2, g.off1], len, |a, b, c, d| (a & b) | (c ^ d));
        let wq: Vec<bool> = (0..len).map(|i| (m1[i] & m2[i]) | (m2[i] ^ m1[i])).collect();
        cmp_buf("bitwise_quaternary_op_helper", &q, &wq)?;
        // assign ops: shared (b1 is also held by bb1) and unique
        for k in 0..3 {
            let want = [&and, &or, &xor][k];
            let mut shared = bb1.clone();
            match k {
                0 => shared &= &bb2,
                1 => shared |= &bb2,
                _ => shared ^= &bb2,
            }
            cmp_bits("assign(shared)", &shared, want)?;
            // the shared region must be untouched
            ensure!(b1.as_slice() == &d1[..], "assign(shared):mutated-shared", "assign op on a shared buffer modified the shared bytes");
            cmp_bits("assign(shared):other-handle", &bb1, &m1)?;
            // unique
            let mut uniq = BooleanBuffer::new(Buffer::from_vec(d1.clone()), g.off1, len);
            match k {
                0 => uniq &= &bb2,
                1 => uniq |= &bb2,
                _ => uniq ^= &bb2,
            }
            cmp_bits("assign(unique)", &uniq, want)?;
            if uniq.offset() == g.off1 && uniq.inner().len() == d1.len() {
                // in place: bits outside the range must be preserved
                let img = uniq.inner().as_slice();
                for i in 0..d1.len() * 8 {
                    if i < g.off1 || i >= g.off1 + len {
                        ensure!(getb(img, i) == getb(&d1, i), "assign(unique):outside-bit", "in-place assign changed bit {} outside [{}, {})", i, g.off1, g.off1 + len);
                    }
                }
            }
        }
        Ok(())
    })??;
    c.evals(14);
    Ok(())
}

// -------------------------------------------------------------------------------------------
/// in-place / destination-writing operations: whole destination image compared
pub fn sub_inplace(c: &mut Case, grid: bool) -> CaseResult {
    let g = geo(c, grid);
    let t = &mut c.tape;
    let len = g.len;
    let s1 = t.below(4);
    let dst0 = make_bytes(t, g.off1, len, g.c1, s1);
    let s2 = t.below(4);
    let src = make_bytes(t, g.off2, len, g.c2, s2);
    let md = bits(&dst0, g.off1, len);
    let ms = bits(&src, g.off2, len);
    let check_image = |what: &str, img: &[u8], want: &[bool]| -> CaseResult {
        ensure!(img.len() == dst0.len(), format!("{}:len", what), "image length changed");
        for i in 0..img.len() * 8 {
            let w = if i >= g.off1 && i < g.off1 + len { want[i - g.off1] } else { getb(&dst0, i) };
            ensure!(getb(img, i) == w, format!("{}:{}", what, if i >= g.off1 && i < g.off1 + len { "inside-bit" } else { "outside-bit" }),
                "{}: destination bit {} is {} expected {} (range [{}, {}))", what, i, getb(img, i), w, g.off1, g.off1 + len);
        }
        Ok(())
    };
    // unary
    for (name, f, fb) in [("not", (|a: u64| !a) as fn(u64) -> u64, (|a: bool| !a) as fn(bool) -> bool), ("id", |a| a, |a| a), ("ones", |_a| u64::MAX, |_a| true), ("zeros", |_a| 0, |_a| false)] {
        let mut img = dst0.clone();
        no_panic("apply_bitwise_unary_op", || bit_util::apply_bitwise_unary_op(&mut img, g.off1, len, f))?;
        let want: Vec<bool> = md.iter().map(|b| fb(*b)).collect();
        check_image(&format!("apply_bitwise_unary_op({})", name), &img, &want)?;
        c.eval();
    }
    for op in BINOPS {
        let mut img = dst0.clone();
        no_panic("apply_bitwise_binary_op", || bit_util::apply_bitwise_binary_op(&mut img, g.off1, &src, g.off2, len, |a, b| op.w(a, b)))?;
        let want: Vec<bool> = (0..len).map(|i| op.b(md[i], ms[i])).collect();
        check_image(&format!("apply_bitwise_binary_op({:?})", op), &img, &want)?;
        c.eval();
    }
    // set_bits: destination range must be zero beforehand (documented by the crate's own tests)
    {
        let mut img = dst0.clone();
        for i in 0..len {
            setb(&mut img, g.off1 + i, false);
        }
        let zeroed = img.clone();
        let nulls = no_panic("set_bits", || bit_mask::set_bits(&mut img, &src, g.off1, g.off2, len))?;
        ensure!(nulls == ms.iter().filter(|x| !**x).count(), "set_bits:return", "set_bits returned {} zero bits, expected {}", nulls, ms.iter().filter(|x| !**x).count());
        for i in 0..img.len() * 8 {
            let w = if i >= g.off1 && i < g.off1 + len { ms[i - g.off1] } else { getb(&zeroed, i) };
            ensure!(getb(&img, i) == w, if i >= g.off1 && i < g.off1 + len { "set_bits:inside-bit" } else { "set_bits:outside-bit" }, "set_bits: destination bit {} expected {}", i, w);
        }
        c.eval();
    }
    // get/set/unset bit
    if len > 0 {
        let mut img = dst0.clone();
        let i = g.off1 + c.tape.below(len);
        ensure!(bit_util::get_bit(&img, i) == getb(&dst0, i), "get_bit", "get_bit");
        bit_util::set_bit(&mut img, i);
        let mut want = dst0.clone();
        setb(&mut want, i, true);
        ensure!(img == want, "set_bit", "set_bit changed other bits");
        bit_util::unset_bit(&mut img, i);
        setb(&mut want, i, false);
        ensure!(img == want, "unset_bit", "unset_bit changed other bits");
    }
    ensure!(bit_util::ceil(len, 8) == (len + 7) / 8, "ceil", "ceil");
    ensure!(bit_util::round_upto_multiple_of_64(len) == (len + 63) / 64 * 64, "round64", "round_upto_multiple_of_64");
    Ok(())
}

// -------------------------------------------------------------------------------------------
pub fn sub_iterators(c: &mut Case, grid: bool) -> CaseResult {
    let g = geo(c, grid);
    let len = g.len;
    let sl = c.tape.below(3);
    let d = make_bytes(&mut c.tape, g.off1, len, g.c1, sl);
    let m = bits(&d, g.off1, len);
    let ones: Vec<usize> = (0..len).filter(|i| m[*i]).collect();
    no_panic("iterators", || -> CaseResult {
        // BitIterator: random walk of next/next_back/nth/nth_back
        let mut it = BitIterator::new(&d, g.off1, len);
        let (mut lo, mut hi) = (0usize, len);
        ensure!(it.len() == len, "BitIterator:len", "len");
        for _ in 0..24 {
            match c.tape.below(5) {
                0 | 1 => {
                    let got = it.next();
                    let want = if lo < hi {
                        lo += 1;
                        Some(m[lo - 1])
                    } else {
                        None
                    };
                    ensure!(got == want, "BitIterator:next", "next {:?} != {:?} at {}", got, want, lo);
                }
                2 => {
                    let got = it.next_back();
                    let want = if lo < hi {
                        hi -= 1;
                        Some(m[hi])
                    } else {
                        None
                    };
                    ensure!(got == want, "BitIterator:next_back", "next_back {:?} != {:?}", got, want);
                }
                3 => {
                    let n = c.tape.below(70);
                    let got = it.nth(n);
                    let want = if lo + n < hi {
                        lo += n + 1;
                        Some(m[lo - 1])
                    } else {
                        lo = hi;
                        None
                    };
                    ensure!(got == want, "BitIterator:nth", "nth({}) {:?} != {:?}", n, got, want);
                }
                _ => {
                    let n = c.tape.below(70);
                    let got = it.nth_back(n);
                    let want = if lo + n < hi {
                        hi -= n + 1;
                        Some(m[hi])
                    } else {
                        hi = lo;
                        None
                    };
                    ensure!(got == want, "BitIterator:nth_back", "nth_back({}) {:?} != {:?}", n, got, want);
                }
            }
            ensure!(it.len() == hi - lo, "BitIterator:size", "size_hint {} != {}", it.len(), hi - lo);
        }
        let rest: Vec<bool> = it.collect();
        ensure!(rest == m[lo..hi], "BitIterator:rest", "remaining elements differ");
        let it = BitIterator::new(&d, g.off1, len);
        ensure!(it.clone().last() == m.last().copied(), "BitIterator:last", "last");
        ensure!(it.clone().count() == len, "BitIterator:count", "count");
        ensure!(it.clone().rev().collect::<Vec<_>>() == m.iter().rev().copied().collect::<Vec<_>>(), "BitIterator:rev", "rev");
        ensure!(it.clone().max() == m.iter().copied().max(), "BitIterator:max", "max");
        // index iterators
        let idx: Vec<usize> = BitIndexIterator::new(&d, g.off1, len).collect();
        ensure!(idx == ones, "BitIndexIterator", "BitIndexIterator {:?} != {:?}", idx, ones);
        let idx: Vec<usize> = BitIndexU32Iterator::new(&d, g.off1, len).map(|x| x as usize).collect();
        ensure!(idx == ones, "BitIndexU32Iterator", "BitIndexU32Iterator differs");
        let sl: Vec<(usize, usize)> = BitSliceIterator::new(&d, g.off1, len).collect();
        let mut cov = vec![false; len];
        let mut prev_end = None;
        for (s, e) in &sl {
            ensure!(s < e && *e <= len, "BitSliceIterator:range", "bad range {}..{}", s, e);
            if let Some(p) = prev_end {
                ensure!(*s > p, "BitSliceIterator:maximal", "runs not maximal/ordered: previous end {} next start {}", p, s);
            }
            prev_end = Some(*e);
            for i in *s..*e {
                cov[i] = true
            }
        }
        ensure!(cov == m, "BitSliceIterator:cover", "runs do not cover exactly the set bits");
        // UnalignedBitChunk
        let u = UnalignedBitChunk::new(&d, g.off1, len);
        ensure!(u.count_ones() == ones.len(), "UnalignedBitChunk:count_ones", "count_ones {} != {}", u.count_ones(), ones.len());
        let mut all = vec![];
        for w in u.iter() {
            for k in 0..64 {
                all.push(w >> k & 1 == 1)
            }
        }
        ensure!(u.lead_padding() + len + u.trailing_padding() == all.len(), "UnalignedBitChunk:padding", "lead {} + len {} + trail {} != {}", u.lead_padding(), len, u.trailing_padding(), all.len());
        ensure!(all[u.lead_padding()..u.lead_padding() + len] == m[..], "UnalignedBitChunk:bits", "bits differ");
        let n_words = u.prefix().is_some() as usize + u.chunks().len() + u.suffix().is_some() as usize;
        ensure!(n_words * 64 == all.len(), "UnalignedBitChunk:words", "prefix/chunks/suffix inconsistent with iter");
        // BitChunks
        let ch = BitChunks::new(&d, g.off1, len);
        ensure!(ch.chunk_len() == len / 64 && ch.remainder_len() == len % 64, "BitChunks:lens", "chunk_len/remainder_len");
        ensure!(ch.num_u64s() == len.div_ceil(64) && ch.num_bytes() == len.div_ceil(8), "BitChunks:num", "num_u64s/num_bytes");
        let mut rebuilt = vec![];
        for w in ch.iter_padded() {
            for k in 0..64 {
                rebuilt.push(w >> k & 1 == 1)
            }
        }
        ensure!(rebuilt[..len] == m[..] && rebuilt[len..].iter().all(|b| !*b), "BitChunks:iter_padded", "iter_padded bits or padding differ");
        // try_for_each_valid_idx
        let nb = NullBuffer::new(BooleanBuffer::new(Buffer::from_vec(d.clone()), g.off1, len));
        let mut seen = vec![];
        let r: Result<(), ()> = nb.try_for_each_valid_idx(|i| {
            seen.push(i);
            Ok(())
        });
        ensure!(r.is_ok() && seen == ones, "try_for_each_valid_idx", "visited {:?} expected {:?}", seen, ones);
        let mut seen2 = vec![];
        let r: Result<(), usize> = arrow_buffer::bit_iterator::try_for_each_valid_idx(len, g.off1, len - ones.len(), Some(&d), |i| {
            seen2.push(i);
            if seen2.len() == 3 { Err(i) } else { Ok(()) }
        });
        let want_first: Vec<usize> = ones.iter().copied().take(3).collect();
        ensure!(seen2 == want_first && r.is_err() == (ones.len() >= 3), "try_for_each_valid_idx:early", "early exit visited {:?}", seen2);
        Ok(())
    })??;
    c.evals(12);
    Ok(())
}

// -------------------------------------------------------------------------------------------
fn sub_nullbuffer(c: &mut Case, grid: bool) -> CaseResult {
    let g = geo(c, grid);
    let len = g.len.min(if grid { 200 } else { 600 });
    let d1 = make_bytes(&mut c.tape, g.off1, len, g.c1, 1);
    let d2 = make_bytes(&mut c.tape, g.off2, len, g.c2, 1);
    let m1 = bits(&d1, g.off1, len);
    let m2 = bits(&d2, g.off2, len);
    let expand = 1 + c.tape.below(5);
    let so = c.tape.below(len + 1);
    let sl = c.tape.below(len - so + 1);
    let third = c.tape.bool();
    no_panic("NullBuffer", || -> CaseResult {
        let n1 = NullBuffer::new(BooleanBuffer::new(Buffer::from_vec(d1.clone()), g.off1, len));
        let n2 = NullBuffer::new(BooleanBuffer::new(Buffer::from_vec(d2.clone()), g.off2, len));
        let nc = |m: &[bool]| m.iter().filter(|x| !**x).count();
        ensure!(n1.null_count() == nc(&m1) && n1.len() == len, "NullBuffer:null_count", "null_count {} != {}", n1.null_count(), nc(&m1));
        for i in 0..len {
            ensure!(n1.is_valid(i) == m1[i] && n1.is_null(i) != m1[i], "NullBuffer:is_valid", "is_valid({})", i);
        }
        let want: Vec<bool> = (0..len).map(|i| m1[i] & m2[i]).collect();
        let chk = |what: &str, u: Option<NullBuffer>, want: &[bool]| -> CaseResult {
            match u {
                None => ensure!(want.iter().all(|x| *x), format!("{}:none", what), "{} returned None but {} nulls expected", what, nc(want)),
                Some(u) => {
                    cmp_bits(what, u.inner(), want)?;
                    ensure!(u.null_count() == nc(want), format!("{}:null_count", what), "{} null_count {} != {}", what, u.null_count(), nc(want));
                }
            }
            Ok(())
        };
        chk("union", NullBuffer::union(Some(&n1), Some(&n2)), &want)?;
        chk("union(l,None)", NullBuffer::union(Some(&n1), None), &m1)?;
        chk("union(None,r)", NullBuffer::union(None, Some(&n2)), &m2)?;
        chk("union(None,None)", NullBuffer::union(None, None), &vec![true; len])?;
        let n3 = n1.slice(0, len);
        let mut many: Vec<Option<&NullBuffer>> = vec![Some(&n1), None, Some(&n2)];
        if third {
            many.push(Some(&n3));
        }
        chk("union_many", NullBuffer::union_many(many), &want)?;
        chk("union_many(empty)", NullBuffer::union_many(vec![None, None]), &vec![true; len])?;
        // contains: all nulls in other also exist in self
        let wc = (0..len).all(|i| m2[i] || !m1[i]);
        ensure!(n1.contains(&n2) == wc, "contains", "n1.contains(n2) = {} expected {}", n1.contains(&n2), wc);
        ensure!(n1.contains(&n1), "contains:reflexive", "contains(self) false");
        let un = NullBuffer::new(BooleanBuffer::from(want.clone()));
        ensure!(un.contains(&n1) && un.contains(&n2), "contains:union", "union does not contain its operands");
        // expand
        let e = n1.expand(expand);
        let we: Vec<bool> = (0..len * expand).map(|i| m1[i / expand]).collect();
        cmp_bits("expand", e.inner(), &we)?;
        ensure!(e.null_count() == nc(&we), "expand:null_count", "expand null_count {} != {}", e.null_count(), nc(&we));
        // slice
        let s = n1.slice(so, sl);
        cmp_bits("NullBuffer::slice", s.inner(), &m1[so..so + sl])?;
        ensure!(s.null_count() == nc(&m1[so..so + sl]), "NullBuffer::slice:null_count", "slice null_count");
        let vi: Vec<usize> = s.valid_indices().collect();
        ensure!(vi == (0..sl).filter(|i| m1[so + i]).collect::<Vec<_>>(), "valid_indices", "valid_indices");
        let vs: Vec<(usize, usize)> = s.valid_slices().collect();
        let tot: usize = vs.iter().map(|(a, b)| b - a).sum();
        ensure!(tot == sl - s.null_count(), "valid_slices", "valid_slices total");
        ensure!(s.iter().collect::<Vec<_>>() == m1[so..so + sl], "NullBuffer::iter", "iter");
        let nn = NullBuffer::new_null(len);
        let nv = NullBuffer::new_valid(len);
        ensure!(nn.null_count() == len && nv.null_count() == 0, "new_null/new_valid", "counts");
        ensure!((n1 == n2) == (m1 == m2), "NullBuffer:eq", "eq");
        Ok(())
    })??;
    c.evals(14);
    Ok(())
}

// -------------------------------------------------------------------------------------------
fn sub_builder(c: &mut Case) -> CaseResult {
    let nops = 1 + c.tape.below(24);
    let mut model: Vec<bool> = vec![];
    let cap = c.tape.below(130);
    let mut b = BooleanBufferBuilder::new(cap);
    let mut nmodel: Vec<bool> = vec![];
    let mut nb = NullBufferBuilder::new(c.tape.below(130));
    let mut trace = vec![];
    let mut hist_classes = (false, false, false);
    let r = no_panic("builder-history", || -> CaseResult {
        for step in 0..nops {
            let op = c.tape.below(13);
            match op {
                0 => {
                    let v = c.tape.bool();
                    b.append(v);
                    model.push(v);
                    nb.append(v);
                    nmodel.push(v);
                    trace.push(format!("append({})", v));
                }
                1 => {
                    let n = *c.tape.pick(&[0usize, 1, 3, 7, 8, 9, 63, 64, 65, 130]);
                    let v = c.tape.bool();
                    b.append_n(n, v);
                    model.extend(std::iter::repeat(v).take(n));
                    if v {
                        nb.append_n_non_nulls(n)
                    } else {
                        nb.append_n_nulls(n)
                    }
                    nmodel.extend(std::iter::repeat(v).take(n));
                    trace.push(format!("append_n({},{})", n, v));
                }
                2 => {
                    let n = c.tape.below(70);
                    let s: Vec<bool> = (0..n).map(|_| c.tape.bool()).collect();
                    b.append_slice(&s);
                    model.extend(&s);
                    nb.append_slice(&s);
                    nmodel.extend(&s);
                    trace.push(format!("append_slice(len {})", n));
                }
                3 | 4 => {
                    let off = c.tape.bias_offset();
                    let n = c.tape.below(140);
                    let bytes: Vec<u8> = (0..(off + n).div_ceil(8) + 1).map(|_| c.tape.u8()).collect();
                    let s = bits(&bytes, off, n);
                    if op == 3 {
                        b.append_packed_range(off..off + n, &bytes);
                    } else {
                        let bb = BooleanBuffer::new(Buffer::from_vec(bytes.clone()), off, n);
                        b.append_buffer(&bb);
                        nb.append_buffer(&NullBuffer::new(bb));
                        nmodel.extend(&s);
                    }
                    model.extend(&s);
                    hist_classes.0 = true;
                    trace.push(format!("append_packed/buffer(off {}, len {})", off, n));
                }
                5 => {
                    let count = c.tape.below(65);
                    let w = c.tape.u64();
                    b.append_word(w, count);
                    for k in 0..count {
                        model.push(w >> k & 1 == 1)
                    }
                    trace.push(format!("append_word({:#x},{})", w, count));
                }
                6 => {
                    if !model.is_empty() {
                        let i = c.tape.below(model.len());
                        let v = c.tape.bool();
                        b.set_bit(i, v);
                        model[i] = v;
                        trace.push(format!("set_bit({},{})", i, v));
                    }
                    if !nmodel.is_empty() {
                        let i = c.tape.below(nmodel.len());
                        let v = c.tape.bool();
                        nb.set_bit(i, v);
                        nmodel[i] = v;
                    }
                }
                7 => {
                    let l = c.tape.below(model.len() + 10);
                    b.truncate(l);
                    if l <= model.len() {
                        model.truncate(l)
                    }
                    let l = c.tape.below(nmodel.len() + 10);
                    nb.truncate(l);
                    if l <= nmodel.len() {
                        nmodel.truncate(l)
                    }
                    hist_classes.1 = true;
                    trace.push(format!("truncate({})", l));
                }
                8 => {
                    let l = c.tape.below(model.len() + 70);
                    b.resize(l);
                    model.resize(l, false);
                    hist_classes.1 = true;
                    trace.push(format!("resize({})", l));
                }
                9 => {
                    let n = c.tape.below(70);
                    b.advance(n);
                    model.extend(std::iter::repeat(false).take(n));
                    trace.push(format!("advance({})", n));
                }
                10 => {
                    let f = b.finish_cloned();
                    cmp_bits(&format!("finish_cloned@{}", step), &f, &model)?;
                    if let Some(n) = nb.finish_cloned() {
                        cmp_bits("NullBufferBuilder::finish_cloned", n.inner(), &nmodel)?;
                    } else {
                        ensure!(nmodel.iter().all(|x| *x), "NullBufferBuilder::finish_cloned:none", "None with nulls in model");
                    }
                }
                11 => {
                    let f = b.finish();
                    cmp_bits(&format!("finish@{}", step), &f, &model)?;
                    model.clear();
                    ensure!(b.len() == 0 && b.is_empty(), "finish:reset", "builder not reset by finish");
                    let nl = nb.len();
                    ensure!(nl == nmodel.len(), "NullBufferBuilder:len", "len {} != {}", nl, nmodel.len());
                    match nb.finish() {
                        Some(n) => {
                            cmp_bits("NullBufferBuilder::finish", n.inner(), &nmodel)?;
                            ensure!(n.null_count() == nmodel.iter().filter(|x| !**x).count(), "NullBufferBuilder::finish:null_count", "null_count");
                        }
                        None => ensure!(nmodel.iter().all(|x| *x), "NullBufferBuilder::finish:none", "None with nulls in model"),
                    }
                    nmodel.clear();
                    hist_classes.2 = true;
                    trace.push("finish".into());
                }
                _ => {
                    nb.append_null();
                    nmodel.push(false);
                    nb.append_non_null();
                    nmodel.push(true);
                }
            }
            ensure!(b.len() == model.len(), "builder:len", "len {} != model {} after {:?}", b.len(), model.len(), trace.last());
            ensure!(nb.len() == nmodel.len(), "NullBufferBuilder:len", "null builder len {} != model {} after {:?}", nb.len(), nmodel.len(), trace.last());
            for i in 0..model.len() {
                ensure!(b.get_bit(i) == model[i], "builder:get_bit", "get_bit({}) != model after {:?} (step {})", i, trace.last(), step);
            }
            for i in 0..nmodel.len() {
                ensure!(nb.is_valid(i) == nmodel[i], "NullBufferBuilder:is_valid", "is_valid({}) != model after {:?}", i, trace.last());
            }
            // padding bits of the last byte must be zero (BooleanBuffer == relies on value semantics, but
            // append_n(true) documents clearing the remaining bits) - checked through a later append
        }
        let f = b.finish();
        cmp_bits("finish(final)", &f, &model)?;
        Ok(())
    })?;
    r?;
    // MutableBuffer::with_bitset / set_null_bits
    no_panic("MutableBuffer", || -> CaseResult {
        let capb = 1 + c.tape.below(40);
        let end = c.tape.below(capb + 1);
        let v = c.tape.bool();
        let m = MutableBuffer::new(capb).with_bitset(end, v);
        ensure!(m.len() == end && m.as_slice().iter().all(|x| *x == if v { 255 } else { 0 }), "with_bitset", "with_bitset content");
        let mut m = MutableBuffer::from_len_zeroed(capb);
        for x in m.as_slice_mut() {
            *x = 0xEE
        }
        let st = c.tape.below(capb + 1);
        let cnt = c.tape.below(capb - st + 1);
        m.set_null_bits(st, cnt);
        for (i, x) in m.as_slice().iter().enumerate() {
            let w = if i >= st && i < st + cnt { 0 } else { 0xEE };
            ensure!(*x == w, "set_null_bits", "set_null_bits byte {}", i);
        }
        Ok(())
    })??;
    if hist_classes.0 && nops >= 4 {
        c.nontrivial();
    }
    if hist_classes.1 {
        c.class("truncate/resize");
    }
    if hist_classes.2 {
        c.class("finish-mid-history");
    }
    c.evals(nops as u64);
    c.describe(json!({"history": trace}));
    Ok(())
}

/// dedicated enumeration for the Buffer-returning unary wrappers (fixed finding F6: buffer_unary_not kept the
/// BooleanBuffer offset): idx -> (offset 0..=130, len 0..=200)
fn sub_unary_wrappers(c: &mut Case) -> CaseResult {
    let _ = c.tape.u64();
    let off = (c.index % 131) as usize;
    let len = ((c.index / 131) % 201) as usize;
    let d = make_bytes(&mut c.tape, off, len, Content::Random, 1);
    let m = bits(&d, off, len);
    let notm: Vec<bool> = m.iter().map(|x| !x).collect();
    let b = buffer_at(&d, (c.index % 9) as usize);
    if off % 8 != 0 && len > 0 {
        c.nontrivial();
    }
    c.describe(json!({"off": off, "len": len}));
    no_panic("unary-wrappers", || -> CaseResult {
        cmp_buf("buffer_unary_not", &buffer_unary_not(&b, off, len), &notm)?;
        cmp_buf("bitwise_unary_op_helper", &bitwise_unary_op_helper(&b, off, len, |a| !a), &notm)?;
        cmp_buf("bitwise_unary_op_helper(id)", &bitwise_unary_op_helper(&b, off, len, |a| a), &m)?;
        cmp_buf("Buffer::bit_slice", &b.bit_slice(off, len), &m)?;
        Ok(())
    })??;
    c.evals(4);
    Ok(())
}

fn main() {
    let grid_q: u64 = 201 * 15 * 3; // all lengths x offsets x 3 contents, off2 = first of OFFS
    let grid_t: u64 = 201 * 15 * 3 * 15; // + all second offsets
    Check::new(
        "C19",
        "exploration",
        "cases = (bit offset(s), length, content class, random surrounding bits, base-pointer alignment); grid sub-checks enumerate all lengths 0..=200 x offsets {0,1,7,8,9,31,32,33,63,64,65,127,128,129,130} (x second offset in thorough) x contents; random sub-checks draw offsets 0..=130, lengths up to 10000. Non-trivial = len>0 and (offset%8!=0 or the two operands' offsets differ mod 64) with non-uniform content; builder histories: >=4 ops incl. a packed-range append at a bit offset. Distinct = distinct consumed entropy tape.",
    )
    .assume("bit_mask::set_bits requires a zeroed destination range (it ORs); equal lengths for binary ops; closures passed to word ops are bitwise")
    .assume("value-returning constructors are compared on their logical range only (docs allow garbage outside)")
    .sub(Sub::new("boolean_buffer_grid", 0, 0, |c| sub_boolean_buffer(c, true)).enumerate(grid_q, grid_t))
    .sub(Sub::new("inplace_grid", 0, 0, |c| sub_inplace(c, true)).enumerate(grid_q, grid_t))
    .sub(Sub::new("iterators_grid", 0, 0, |c| sub_iterators(c, true)).enumerate(grid_q, grid_q))
    .sub(Sub::new("nullbuffer_grid", 0, 0, |c| sub_nullbuffer(c, true)).enumerate(grid_q, grid_t))
    .sub(Sub::new("unary_wrappers_grid", 0, 0, sub_unary_wrappers).enumerate(131 * 201, 131 * 201))
    .sub(Sub::new("boolean_buffer", 3000, 60000, |c| sub_boolean_buffer(c, false)).tape(64, 3000).require(&["off1-unaligned", "diff-word-alignment", "len>200"]))
    .sub(Sub::new("inplace", 4000, 80000, |c| sub_inplace(c, false)).tape(64, 3000).require(&["off1-unaligned", "diff-word-alignment"]))
    .sub(Sub::new("iterators", 3000, 60000, |c| sub_iterators(c, false)).tape(64, 2000))
    .sub(Sub::new("nullbuffer", 3000, 60000, |c| sub_nullbuffer(c, false)).tape(64, 1000))
    .sub(Sub::new("builder_history", 4000, 100000, sub_builder).tape(32, 1500).require(&["truncate/resize", "finish-mid-history"]))
    .run()
}
