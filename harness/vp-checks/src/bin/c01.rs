//! C01 — every array returned by a safe API is a well-formed Arrow array.
//! Generated pipelines of kernels over generated types/layouts; every stage output is judged by two validators
//! (independent spec validator + ArrayData::validate_full), by its documented type/length, and by a bounded accessor walk.
//! Built with `--features fv` the same pipelines run with `force_validate` (validation inside unchecked constructors).
#[path = "../kernels.rs"]
mod kernels;
use arrow_array::builder::*;
use arrow_array::types::*;
use arrow_array::*;
use arrow_cast::display::{ArrayFormatter, FormatOptions};
use arrow_data::transform::MutableArrayData;
use kernels::*;
use serde_json::json;
use std::sync::Arc;
use vp_engine::batch::*;
use vp_engine::ensure;
use vp_engine::extract::extract;
use vp_engine::model::*;
use vp_engine::r#gen::*;
use vp_engine::realise::*;
use vp_engine::runner::*;
use vp_engine::validate::check_valid;

fn accessor_walk(arr: &ArrayRef, what: &str) -> CaseResult {
    no_panic(&format!("{}:accessor-walk", what), || {
        let _ = extract(arr.as_ref());
        if let Ok(f) = ArrayFormatter::try_new(arr.as_ref(), &FormatOptions::default()) {
            for i in 0..arr.len() {
                let _ = f.value(i).try_to_string();
            }
        }
        let n = arr.len();
        if n > 1 {
            let s = arr.slice(1, n - 1);
            let _ = extract(s.as_ref());
            let _ = s.as_ref() == arr.slice(1, n - 1).as_ref();
        }
        let _ = arr.logical_nulls().map(|x| x.null_count());
        let _ = arr.get_array_memory_size();
    })
}

fn tcfg() -> TypeCfg {
    let mut c = TypeCfg::all();
    c.depth = 2;
    c
}

pub fn sub_pipelines(c: &mut Case) -> CaseResult {
    set_avoid_known(!c.strict);
    let ty0 = gen_type(&mut c.tape, &tcfg());
    let n = gen_len(&mut c.tape);
    let col = gen_column(&mut c.tape, &ty0, true, n, &ValCfg::default());
    let lay = Lay { fancy: true, dict_value_nulls: true, slice_chance: 128 };
    let mut arr = realise(&mut c.tape, &ty0, &col, true, &lay);
    c.class(format!("source:{}", ty0.family()));
    check_valid(arr.as_ref(), "source")?;
    let nstages = 1 + c.tape.below(4);
    let mut names: Vec<String> = vec![];
    let mut done = 0;
    let sliced_or_garbage = arr.offset() > 0 || col.iter().any(|v| v.is_null());
    for si in 0..nstages {
        let Some(ty) = LType::from_arrow(arr.data_type()) else { break };
        let cur = no_panic("extract", || extract(arr.as_ref()))?;
        let st = gen_stage(&mut c.tape, &ty, &cur, true);
        let name = st.name();
        let what = format!("{}[{}]", name.split('(').next().unwrap_or(&name), ty.family());
        names.push(name.clone());
        c.class(format!("stage:{}", name.split('(').next().unwrap_or(&name)));
        let (want_ty, want_len) = expected_shape(&st, arr.data_type(), arr.len());
        let r = match catch(|| run_stage(&st, &mut c.tape, &ty, &arr)) {
            Ok(r) => r,
            Err(p) => {
                // known finding (decimal rescale unwrap on null-slot payload) keeps one signature whatever the wrapper type
                if p.loc.contains("cast/decimal.rs") && p.msg.contains("Option::unwrap()") {
                    return Err(Fail::new("cast:decimal-rescale:null-payload-panic", format!("{} panicked at {}: {}", what, p.loc, p.msg)));
                }
                return Err(Fail::new(format!("{}:{}", what, p.sig()), format!("{} panicked at {}: {} (pipeline {:?})", what, p.loc, p.msg, names)));
            }
        };
        c.eval();
        match r {
            Err(_) => break, // error outcomes are judged by C02/C12/C13; the pipeline ends
            Ok(out) => {
                if let Some(t) = want_ty {
                    ensure!(out.data_type() == &t, format!("{}:type", what), "{} returned type {} expected {} (stage {} of {:?})", name, out.data_type(), t, si, names);
                }
                if let Some(l) = want_len {
                    ensure!(out.len() == l, format!("{}:len", what), "{} returned {} rows expected {} (pipeline {:?})", name, out.len(), l, names);
                }
                check_valid(out.as_ref(), &what)?;
                accessor_walk(&out, &what)?;
                arr = out;
                done += 1;
            }
        }
    }
    if done >= 2 && sliced_or_garbage && arr.len() > 0 {
        c.nontrivial();
    }
    c.class(format!("stages-completed:{}", done));
    c.describe(json!({"source_type": ty0.arrow().to_string(), "len": n, "pipeline": names}));
    Ok(())
}

/// MutableArrayData extend / extend_nulls histories over several source arrays of one type
fn sub_mutable(c: &mut Case) -> CaseResult {
    let ty = gen_type(&mut c.tape, &tcfg());
    c.class(format!("type:{}", ty.family()));
    let k = 1 + c.tape.below(3);
    let lay = Lay { fancy: true, dict_value_nulls: false, slice_chance: 128 };
    let mut cols = vec![];
    let mut datas = vec![];
    for _ in 0..k {
        let n = c.tape.below(20);
        let col = gen_column(&mut c.tape, &ty, true, n, &ValCfg::default());
        let a = realise(&mut c.tape, &ty, &col, true, &lay);
        datas.push(a.to_data());
        cols.push(col);
    }
    let use_nulls = !matches!(ty, LType::Union { .. });
    let refs: Vec<&arrow_data::ArrayData> = datas.iter().collect();
    let nops = c.tape.below(10);
    let mut want: Vec<LValue> = vec![];
    let mut ops = vec![];
    let res = no_panic("MutableArrayData", || {
        let mut m = MutableArrayData::new(refs, use_nulls, 4);
        for _ in 0..nops {
            if use_nulls && c.tape.chance(50) {
                let l = c.tape.below(4);
                m.try_extend_nulls(l).unwrap();
                want.extend(std::iter::repeat(LValue::Null).take(l));
                ops.push(format!("extend_nulls({})", l));
            } else {
                let i = c.tape.below(k);
                let n = cols[i].len();
                let s = c.tape.below(n + 1);
                let e = s + c.tape.below(n - s + 1);
                m.extend(i, s, e);
                want.extend(cols[i][s..e].iter().cloned());
                ops.push(format!("extend({},{},{})", i, s, e));
            }
        }
        make_array(m.freeze())
    })?;
    c.describe(json!({"type": ty.arrow().to_string(), "ops": ops}));
    let what = format!("MutableArrayData[{}]", ty.family());
    ensure!(res.data_type() == &ty.arrow(), format!("{}:type", what), "type changed");
    check_valid(res.as_ref(), &what)?;
    let got = no_panic("extract", || extract(res.as_ref()))?;
    if let Some(i) = first_diff(&got, &want) {
        return Err(Fail::new(format!("{}:row", what), format!("row {}: {:?} expected {:?} after {:?}", i, got.get(i).map(|v| v.short()), want.get(i).map(|v| v.short()), ops)));
    }
    if nops >= 3 && k >= 2 {
        c.nontrivial();
    }
    c.evals(1);
    Ok(())
}

/// builder histories: append_value / append_null / append_n-like / finish / finish_cloned vs a model
fn sub_builders(c: &mut Case) -> CaseResult {
    let which = c.tape.below(10);
    let nops = c.tape.below(30);
    let mut model: Vec<LValue> = vec![];
    let mut finished: Vec<(ArrayRef, Vec<LValue>)> = vec![];
    let t = &mut c.tape;
    macro_rules! history {
        ($b:expr, $append:expr, $null:expr) => {{
            let mut b = $b;
            for _ in 0..nops {
                match t.below(8) {
                    0 => {
                        $null(&mut b);
                        model.push(LValue::Null);
                    }
                    1 => {
                        let a: ArrayRef = Arc::new(b.finish_cloned());
                        finished.push((a, model.clone()));
                    }
                    2 => {
                        let a: ArrayRef = Arc::new(b.finish());
                        finished.push((a, std::mem::take(&mut model)));
                    }
                    _ => {
                        let v: LValue = $append(&mut b, t);
                        model.push(v);
                    }
                }
            }
            let a: ArrayRef = Arc::new(b.finish());
            finished.push((a, std::mem::take(&mut model)));
        }};
    }
    let name = match which {
        0 => {
            history!(Int32Builder::new(), |b: &mut Int32Builder, t: &mut vp_engine::tape::Tape| { let v = t.u32() as i32; b.append_value(v); LValue::Int(v as i128) }, |b: &mut Int32Builder| b.append_null());
            "Int32Builder"
        }
        1 => {
            history!(BooleanBuilder::new(), |b: &mut BooleanBuilder, t: &mut vp_engine::tape::Tape| { let v = t.bool(); b.append_value(v); LValue::Bool(v) }, |b: &mut BooleanBuilder| b.append_null());
            "BooleanBuilder"
        }
        2 => {
            history!(StringBuilder::new(), |b: &mut StringBuilder, t: &mut vp_engine::tape::Tape| { let v = gen_string(t, 20); b.append_value(&v); LValue::Str(v) }, |b: &mut StringBuilder| b.append_null());
            "StringBuilder"
        }
        3 => {
            history!(LargeBinaryBuilder::new(), |b: &mut LargeBinaryBuilder, t: &mut vp_engine::tape::Tape| { let v = gen_bytes(t, 20); b.append_value(&v); LValue::Bytes(v) }, |b: &mut LargeBinaryBuilder| b.append_null());
            "LargeBinaryBuilder"
        }
        4 => {
            history!(StringViewBuilder::new().with_fixed_block_size(32), |b: &mut StringViewBuilder, t: &mut vp_engine::tape::Tape| { let v = gen_string(t, 40); b.append_value(&v); LValue::Str(v) }, |b: &mut StringViewBuilder| b.append_null());
            "StringViewBuilder"
        }
        5 => {
            history!(FixedSizeBinaryBuilder::new(3), |b: &mut FixedSizeBinaryBuilder, t: &mut vp_engine::tape::Tape| { let v = t.bytes(3); b.append_value(&v).unwrap(); LValue::Bytes(v) }, |b: &mut FixedSizeBinaryBuilder| b.append_null());
            "FixedSizeBinaryBuilder"
        }
        6 => {
            history!(
                ListBuilder::new(Int64Builder::new()),
                |b: &mut ListBuilder<Int64Builder>, t: &mut vp_engine::tape::Tape| {
                    let k = t.below(4);
                    let mut items = vec![];
                    for _ in 0..k {
                        if t.chance(50) {
                            b.values().append_null();
                            items.push(LValue::Null);
                        } else {
                            let v = t.u32() as i64;
                            b.values().append_value(v);
                            items.push(LValue::Int(v as i128));
                        }
                    }
                    b.append(true);
                    LValue::List(items)
                },
                |b: &mut ListBuilder<Int64Builder>| b.append(false)
            );
            "ListBuilder"
        }
        7 => {
            history!(
                StringDictionaryBuilder::<Int8Type>::new(),
                |b: &mut StringDictionaryBuilder<Int8Type>, t: &mut vp_engine::tape::Tape| {
                    let v = format!("v{}", t.below(20));
                    b.append_value(&v);
                    LValue::Str(v)
                },
                |b: &mut StringDictionaryBuilder<Int8Type>| b.append_null()
            );
            "StringDictionaryBuilder"
        }
        8 => {
            history!(
                PrimitiveRunBuilder::<Int16Type, Int32Type>::new(),
                |b: &mut PrimitiveRunBuilder<Int16Type, Int32Type>, t: &mut vp_engine::tape::Tape| {
                    let v = t.below(3) as i32;
                    b.append_value(v);
                    LValue::Int(v as i128)
                },
                |b: &mut PrimitiveRunBuilder<Int16Type, Int32Type>| b.append_null()
            );
            "PrimitiveRunBuilder"
        }
        _ => {
            history!(
                Decimal128Builder::new().with_precision_and_scale(10, 2).unwrap(),
                |b: &mut Decimal128Builder, t: &mut vp_engine::tape::Tape| {
                    let v = t.range(-9_999_999_999, 9_999_999_999) as i128;
                    b.append_value(v);
                    LValue::Int(v)
                },
                |b: &mut Decimal128Builder| b.append_null()
            );
            "Decimal128Builder"
        }
    };
    c.class(format!("builder:{}", name));
    c.describe(json!({"builder": name, "ops": nops, "finishes": finished.len()}));
    for (a, want) in &finished {
        check_valid(a.as_ref(), name)?;
        let got = no_panic("extract", || extract(a.as_ref()))?;
        if let Some(i) = first_diff(&got, want) {
            return Err(Fail::new(format!("{}:row", name), format!("{} row {}: {:?} expected {:?}", name, i, got.get(i), want.get(i))));
        }
        c.eval();
    }
    if finished.len() >= 2 && nops >= 5 {
        c.nontrivial();
    }
    Ok(())
}

/// bulk builder histories: the append_array / append_slice / append_n / append_nulls / append_block families interleaved
/// with single appends and finish / finish_cloned, against a row model.  Source arrays for `append_array` come from the
/// layout realiser (sliced, padded, multi-buffer views, nulls over garbage).
pub fn sub_bulk_builders(c: &mut Case) -> CaseResult {
    let which = c.tape.below(6);
    let nops = 1 + c.tape.below(24);
    let lay = Lay { fancy: true, dict_value_nulls: false, slice_chance: 128 };
    let mut model: Vec<LValue> = vec![];
    let mut finished: Vec<(ArrayRef, Vec<LValue>)> = vec![];
    let mut ops: Vec<String> = vec![];
    let mut bulk = 0usize;
    let t = &mut c.tape;
    macro_rules! fin {
        ($b:expr, $op:expr) => {
            match $op {
                0 => {
                    let a: ArrayRef = Arc::new($b.finish_cloned());
                    finished.push((a, model.clone()));
                    ops.push("finish_cloned".into());
                }
                _ => {
                    let a: ArrayRef = Arc::new($b.finish());
                    finished.push((a, std::mem::take(&mut model)));
                    ops.push("finish".into());
                }
            }
        };
    }
    let name = match which {
        0 | 1 => {
            // string / binary views
            let utf8 = which == 0;
            let ty = if utf8 { LType::Utf8(Enc::View) } else { LType::Binary(Enc::View) };
            let name = if utf8 { "StringViewBuilder" } else { "BinaryViewBuilder" };
            let cfg = t.below(4);
            macro_rules! run {
                ($B:ty, $A:ty, $mk:expr, $asref:expr) => {{
                    let mut b: $B = <$B>::new();
                    if cfg & 1 == 1 {
                        b = b.with_fixed_block_size(*t.pick(&[16u32, 32, 64, 20]));
                    }
                    if cfg & 2 == 2 {
                        b = b.with_deduplicate_strings();
                    }
                    for _ in 0..nops {
                        match t.below(10) {
                            0 => {
                                b.append_null();
                                model.push(LValue::Null);
                                ops.push("null".into());
                            }
                            1 => fin!(b, t.below(2)),
                            2 | 3 => {
                                let n = t.below(8);
                                let col = gen_column(t, &ty, true, n, &ValCfg::default());
                                let a = realise(t, &ty, &col, true, &lay);
                                let a = a.as_any().downcast_ref::<$A>().unwrap().clone();
                                ops.push(format!("append_array(len {}, {} buffers)", a.len(), a.data_buffers().len()));
                                b.append_array(&a);
                                model.extend(col);
                                bulk += 1;
                            }
                            4 => {
                                // a caller-provided block and views into it
                                let block: Vec<u8> = if utf8 { gen_string(t, 40).into_bytes() } else { gen_bytes(t, 40) };
                                let id = b.append_block(arrow_buffer::Buffer::from_vec(block.clone()));
                                let k = t.below(4);
                                for _ in 0..k {
                                    let o = t.below(block.len() + 2);
                                    let l = t.below(block.len() + 2);
                                    let r = b.try_append_view(id, o as u32, l as u32);
                                    let in_range = o + l <= block.len();
                                    let ok_utf8 = in_range && (!utf8 || std::str::from_utf8(&block[o..o + l]).is_ok());
                                    if r.is_ok() {
                                        ensure!(ok_utf8, format!("{}:try_append_view-accepted", name), "try_append_view({}, {}, {}) accepted over a block of {} bytes", id, o, l, block.len());
                                        model.push($mk(&block[o..o + l]));
                                    } else {
                                        ensure!(!ok_utf8, format!("{}:try_append_view-rejected", name), "try_append_view({}, {}, {}) rejected a valid range of a block of {} bytes: {:?}", id, o, l, block.len(), r);
                                    }
                                }
                                ops.push(format!("append_block({} bytes) + {} views", block.len(), k));
                                bulk += 1;
                            }
                            5 => {
                                let n = t.below(4);
                                let v = if utf8 { gen_string(t, 30).into_bytes() } else { gen_bytes(t, 30) };
                                let opt = if t.chance(200) { Some(v) } else { None };
                                for _ in 0..n {
                                    b.append_option(opt.as_ref().map(|v| $asref(v)));
                                    model.push(match &opt {
                                        Some(v) => $mk(v),
                                        None => LValue::Null,
                                    });
                                }
                                ops.push(format!("append_option x{}", n));
                            }
                            _ => {
                                let v = if utf8 { gen_string(t, 40).into_bytes() } else { gen_bytes(t, 40) };
                                b.append_value($asref(&v));
                                model.push($mk(&v));
                                ops.push(format!("value({})", v.len()));
                            }
                        }
                    }
                    fin!(b, 1);
                }};
            }
            if utf8 {
                run!(StringViewBuilder, StringViewArray, |x: &[u8]| LValue::Str(String::from_utf8(x.to_vec()).unwrap()), |v: &Vec<u8>| std::str::from_utf8(v).unwrap().to_string());
            } else {
                run!(BinaryViewBuilder, BinaryViewArray, |x: &[u8]| LValue::Bytes(x.to_vec()), |v: &Vec<u8>| v.clone());
            }
            name
        }
        2 => {
            let ty = LType::Int { bits: 32, signed: true };
            let mut b = Int32Builder::new();
            for _ in 0..nops {
                match t.below(10) {
                    0 => {
                        let n = t.below(70);
                        b.append_nulls(n);
                        model.extend(std::iter::repeat(LValue::Null).take(n));
                        ops.push(format!("append_nulls({})", n));
                        bulk += 1;
                    }
                    1 => fin!(b, t.below(2)),
                    2 => {
                        let n = t.below(70);
                        let v = t.u32() as i32;
                        b.append_value_n(v, n);
                        model.extend(std::iter::repeat(LValue::Int(v as i128)).take(n));
                        ops.push(format!("append_value_n({})", n));
                        bulk += 1;
                    }
                    3 => {
                        let n = t.below(20);
                        let v: Vec<i32> = (0..n).map(|_| t.u32() as i32).collect();
                        b.append_slice(&v);
                        model.extend(v.iter().map(|x| LValue::Int(*x as i128)));
                        ops.push(format!("append_slice({})", n));
                        bulk += 1;
                    }
                    4 => {
                        let n = t.below(20);
                        let v: Vec<i32> = (0..n).map(|_| t.u32() as i32).collect();
                        let ok: Vec<bool> = (0..n).map(|_| t.chance(180)).collect();
                        b.append_values(&v, &ok);
                        model.extend(v.iter().zip(&ok).map(|(x, k)| if *k { LValue::Int(*x as i128) } else { LValue::Null }));
                        ops.push(format!("append_values({})", n));
                        bulk += 1;
                    }
                    5 | 6 => {
                        let n = t.below(20);
                        let col = gen_column(t, &ty, true, n, &ValCfg::default());
                        let a = realise(t, &ty, &col, true, &lay);
                        b.append_array(a.as_any().downcast_ref::<Int32Array>().unwrap());
                        model.extend(col);
                        ops.push(format!("append_array({})", n));
                        bulk += 1;
                    }
                    7 => {
                        let n = t.below(10);
                        let v: Vec<Option<i32>> = (0..n).map(|_| if t.chance(200) { Some(t.u32() as i32) } else { None }).collect();
                        b.extend(v.iter().cloned());
                        model.extend(v.iter().map(|x| x.map(|x| LValue::Int(x as i128)).unwrap_or(LValue::Null)));
                        ops.push(format!("extend({})", n));
                    }
                    _ => {
                        let v = t.u32() as i32;
                        b.append_value(v);
                        model.push(LValue::Int(v as i128));
                        ops.push("value".into());
                    }
                }
            }
            fin!(b, 1);
            "Int32Builder"
        }
        3 => {
            let ty = LType::Bool;
            let mut b = BooleanBuilder::new();
            for _ in 0..nops {
                match t.below(10) {
                    0 => {
                        let n = t.below(70);
                        b.append_nulls(n);
                        model.extend(std::iter::repeat(LValue::Null).take(n));
                        ops.push(format!("append_nulls({})", n));
                        bulk += 1;
                    }
                    1 => fin!(b, t.below(2)),
                    2 => {
                        let n = t.below(70);
                        let v = t.bool();
                        b.append_n(n, v);
                        model.extend(std::iter::repeat(LValue::Bool(v)).take(n));
                        ops.push(format!("append_n({})", n));
                        bulk += 1;
                    }
                    3 => {
                        let n = t.below(20);
                        let v: Vec<bool> = (0..n).map(|_| t.bool()).collect();
                        b.append_slice(&v);
                        model.extend(v.iter().map(|x| LValue::Bool(*x)));
                        ops.push(format!("append_slice({})", n));
                        bulk += 1;
                    }
                    4 => {
                        let n = t.below(20);
                        let v: Vec<bool> = (0..n).map(|_| t.bool()).collect();
                        let ok: Vec<bool> = (0..n).map(|_| t.chance(180)).collect();
                        b.append_values(&v, &ok).unwrap();
                        model.extend(v.iter().zip(&ok).map(|(x, k)| if *k { LValue::Bool(*x) } else { LValue::Null }));
                        ops.push(format!("append_values({})", n));
                        bulk += 1;
                    }
                    5 | 6 => {
                        let n = t.below(80);
                        let col = gen_column(t, &ty, true, n, &ValCfg::default());
                        let a = realise(t, &ty, &col, true, &lay);
                        b.append_array(a.as_any().downcast_ref::<BooleanArray>().unwrap());
                        model.extend(col);
                        ops.push(format!("append_array({})", n));
                        bulk += 1;
                    }
                    _ => {
                        let v = t.bool();
                        b.append_value(v);
                        model.push(LValue::Bool(v));
                        ops.push("value".into());
                    }
                }
            }
            fin!(b, 1);
            "BooleanBuilder"
        }
        4 => {
            let large = t.bool();
            let ty = LType::Utf8(if large { Enc::O64 } else { Enc::O32 });
            macro_rules! run {
                ($B:ty, $A:ty) => {{
                    let mut b = <$B>::new();
                    for _ in 0..nops {
                        match t.below(10) {
                            0 => {
                                let n = t.below(40);
                                b.append_nulls(n);
                                model.extend(std::iter::repeat(LValue::Null).take(n));
                                ops.push(format!("append_nulls({})", n));
                                bulk += 1;
                            }
                            1 => fin!(b, t.below(2)),
                            2 => {
                                let n = t.below(20);
                                let v = gen_string(t, 20);
                                b.append_value_n(&v, n);
                                model.extend(std::iter::repeat(LValue::Str(v.clone())).take(n));
                                ops.push(format!("append_value_n({})", n));
                                bulk += 1;
                            }
                            3 | 4 | 5 => {
                                let n = t.below(20);
                                let col = gen_column(t, &ty, true, n, &ValCfg::default());
                                let a = realise(t, &ty, &col, true, &lay);
                                b.append_array(a.as_any().downcast_ref::<$A>().unwrap()).unwrap();
                                model.extend(col);
                                ops.push(format!("append_array({})", n));
                                bulk += 1;
                            }
                            6 => {
                                let n = t.below(6);
                                let v: Vec<Option<String>> = (0..n).map(|_| if t.chance(200) { Some(gen_string(t, 20)) } else { None }).collect();
                                b.extend(v.iter().cloned());
                                model.extend(v.iter().map(|x| x.clone().map(LValue::Str).unwrap_or(LValue::Null)));
                                ops.push(format!("extend({})", n));
                            }
                            _ => {
                                let v = gen_string(t, 30);
                                b.append_value(&v);
                                model.push(LValue::Str(v));
                                ops.push("value".into());
                            }
                        }
                    }
                    fin!(b, 1);
                }};
            }
            if large {
                run!(LargeStringBuilder, LargeStringArray);
                "LargeStringBuilder"
            } else {
                run!(StringBuilder, StringArray);
                "StringBuilder"
            }
        }
        _ => {
            let w = 1 + t.below(5) as i32;
            let ty = LType::FixedBinary(w);
            let mut b = FixedSizeBinaryBuilder::new(w);
            for _ in 0..nops {
                match t.below(8) {
                    0 => {
                        let n = t.below(40);
                        b.append_nulls(n);
                        model.extend(std::iter::repeat(LValue::Null).take(n));
                        ops.push(format!("append_nulls({})", n));
                        bulk += 1;
                    }
                    1 => fin!(b, t.below(2)),
                    2 | 3 | 4 => {
                        let n = t.below(20);
                        let col = gen_column(t, &ty, true, n, &ValCfg::default());
                        let a = realise(t, &ty, &col, true, &lay);
                        b.append_array(a.as_any().downcast_ref::<FixedSizeBinaryArray>().unwrap()).unwrap();
                        model.extend(col);
                        ops.push(format!("append_array({})", n));
                        bulk += 1;
                    }
                    5 => {
                        // wrong width must be rejected and leave the builder unchanged
                        let v = t.bytes(w as usize + 1);
                        ensure!(b.append_value(&v).is_err(), "FixedSizeBinaryBuilder:wrong-width-accepted", "append_value of {} bytes accepted by a width-{} builder", v.len(), w);
                        ops.push("wrong-width".into());
                    }
                    _ => {
                        let v = t.bytes(w as usize);
                        b.append_value(&v).unwrap();
                        model.push(LValue::Bytes(v));
                        ops.push("value".into());
                    }
                }
            }
            fin!(b, 1);
            "FixedSizeBinaryBuilder"
        }
    };
    c.class(format!("builder:{}", name));
    if bulk >= 2 {
        c.class("bulk-ops>=2");
    }
    c.describe(json!({"builder": name, "ops": ops, "finishes": finished.len()}));
    for (a, want) in &finished {
        let what = format!("{}:bulk", name);
        check_valid(a.as_ref(), &what)?;
        let got = no_panic("extract", || extract(a.as_ref()))?;
        if let Some(i) = first_diff(&got, want) {
            return Err(Fail::new(format!("{}:row", what), format!("{} row {}: {:?} expected {:?} after {:?}", name, i, got.get(i).map(|v| v.short()), want.get(i).map(|v| v.short()), ops)));
        }
        accessor_walk(a, &what)?;
        c.eval();
    }
    if bulk >= 2 && nops >= 4 {
        c.nontrivial();
    }
    Ok(())
}

/// record batch construction / projection / slicing
fn sub_batches(c: &mut Case) -> CaseResult {
    let ncols = c.tape.below(5);
    let mut cfg = tcfg();
    cfg.depth = 1;
    let fields = gen_fields(&mut c.tape, &cfg, ncols, &|_| true);
    let schema = schema_of(&fields, None);
    let n = gen_len(&mut c.tape).min(60);
    let cols = gen_lbatch(&mut c.tape, &fields, n, &ValCfg::default());
    let b = no_panic("realise_batch", || realise_batch(&mut c.tape, &schema, &fields, &cols, n, &Lay::fancy()))?;
    c.describe(json!({"schema": fields.iter().map(|f| f.ty.arrow().to_string()).collect::<Vec<_>>(), "rows": n}));
    let check = |b: &RecordBatch, want: &LBatch, fs: &[LField], rows: usize, what: &str| -> CaseResult {
        ensure!(b.num_rows() == rows && b.num_columns() == fs.len(), format!("{}:shape", what), "{}: shape {}x{} expected {}x{}", what, b.num_rows(), b.num_columns(), rows, fs.len());
        for (i, f) in fs.iter().enumerate() {
            let col = b.column(i);
            ensure!(col.data_type() == b.schema().field(i).data_type(), format!("{}:schema-type", what), "column {} type differs from schema", i);
            ensure!(col.len() == rows, format!("{}:column-len", what), "column {} length {} != {}", i, col.len(), rows);
            ensure!(b.schema().field(i).is_nullable() || col.logical_null_count() == 0, format!("{}:nullability", what), "non-nullable column {} has nulls", i);
            check_valid(col.as_ref(), what)?;
            let got = extract(col.as_ref());
            ensure!(first_diff(&got, &want[i]).is_none(), format!("{}:row", what), "{}: column {} ({}) differs", what, i, f.ty.arrow());
        }
        Ok(())
    };
    check(&b, &cols, &fields, n, "RecordBatch::try_new_with_options")?;
    let o = c.tape.below(n + 1);
    let l = c.tape.below(n - o + 1);
    let s = no_panic("RecordBatch::slice", || b.slice(o, l))?;
    let want: LBatch = cols.iter().map(|c| c[o..o + l].to_vec()).collect();
    check(&s, &want, &fields, l, "RecordBatch::slice")?;
    if ncols > 0 {
        let k = 1 + c.tape.below(ncols);
        let idx: Vec<usize> = (0..k).map(|_| c.tape.below(ncols)).collect();
        let mut uniq = idx.clone();
        uniq.sort();
        uniq.dedup();
        let p = no_panic("RecordBatch::project", || b.project(&uniq))?;
        match p {
            Ok(p) => {
                let want: LBatch = uniq.iter().map(|i| cols[*i].clone()).collect();
                let fs: Vec<LField> = uniq.iter().map(|i| fields[*i].clone()).collect();
                check(&p, &want, &fs, n, "RecordBatch::project")?;
            }
            Err(e) => return Err(Fail::new("RecordBatch::project:err", e.to_string())),
        }
    }
    if ncols >= 2 && n >= 3 {
        c.nontrivial();
    }
    c.evals(3);
    Ok(())
}

/// reproductions of fixed findings
fn sub_findings(c: &mut Case) -> CaseResult {
    let _ = c.tape.u64();
    c.nontrivial();
    c.describe(json!({"finding_case": c.index}));
    match c.index {
        // fixed 7acfc16: PrimitiveRunBuilder::finish did not reset prev_run_end_index
        0 => {
            let r = no_panic("PrimitiveRunBuilder", || {
                let mut b = PrimitiveRunBuilder::<Int16Type, Int32Type>::new();
                b.append_value(5);
                let first = b.finish();
                b.append_value(7);
                let second = b.finish();
                (extract(&first), extract(&second))
            });
            match r {
                Err(f) => return Err(Fail::new("PrimitiveRunBuilder:finish-reuse", f.msg)),
                Ok((a, b)) => ensure!(a == vec![LValue::Int(5)] && b == vec![LValue::Int(7)], "PrimitiveRunBuilder:finish-reuse", "append(5), finish, append(7), finish gave {:?} then {:?}", a, b),
            }
        }
        1 => {
            let r = no_panic("PrimitiveRunBuilder", || {
                let mut b = PrimitiveRunBuilder::<Int16Type, Int32Type>::new();
                b.append_value(5);
                let _ = b.finish();
                extract(&b.finish_cloned())
            });
            match r {
                Err(f) => return Err(Fail::new("PrimitiveRunBuilder:finish-reuse", f.msg)),
                Ok(a) => ensure!(a.is_empty(), "PrimitiveRunBuilder:finish-reuse", "finish_cloned after finish gave {:?}", a),
            }
        }
        // open C13f10 seen through C01: decimal -> decimal cast panics on the payload of a null slot
        2 => {
            let a = Decimal128Array::new(vec![i128::MAX, 100].into(), Some(arrow_buffer::NullBuffer::from(vec![false, true]))).with_precision_and_scale(5, 2).unwrap();
            if let Err(f) = no_panic("cast", || arrow_cast::cast(&a, &arrow_schema::DataType::Decimal32(9, 2))) {
                return Err(Fail::new("cast:decimal-rescale:null-payload-panic", f.msg));
            }
        }
        _ => {}
    }
    Ok(())
}

fn main() {
    Check::new(
        "C01",
        "exploration",
        "cases = pipelines: a generated column (type of depth<=2 incl. dictionary/run-end/view/union/list-view/map, any physical layout) followed by 1-4 stages drawn from the kernel catalogue (filter/take/slice/concat/interleave/nullif/shift/zip, cast to 14 target types safe+strict, arithmetic checked+wrapping, comparison, boolean, sort/sort_limit, row-format round-trip, string kernels, formatter); MutableArrayData extend histories; builder histories with finish/finish_cloned; record-batch construction/slice/project. Oracle after every successful stage: independent spec validator + validate_full + documented type/length + accessor walk. Non-trivial = pipeline with >=2 completed stages whose source was sliced or had nulls and whose final output is non-empty. Built with --features fv (VERIF_FV=1) the same cases run with force_validate.",
    )
    .assume("stage arguments respect documented preconditions; Err results end a pipeline and are not judged here")
    .assume("validate_full's validity-bitmap sizing rule (uses the values offset) is tolerated, see vp_engine::validate::check_valid")
    .sub(Sub::new("findings", 0, 0, sub_findings).enumerate(3, 3))
    .sub(Sub::new("pipelines", 60000, 1500000, sub_pipelines).tape(512, 12000).require(&["stages-completed:3", "source:dictionary", "source:runend", "source:union", "source:view", "source:listview"]))
    .sub(Sub::new("mutable_array_data", 20000, 400000, sub_mutable).tape(256, 8000))
    .sub(Sub::new("builders", 20000, 400000, sub_builders).tape(64, 3000))
    .sub(Sub::new("bulk_builders", 30000, 600000, sub_bulk_builders).tape(128, 6000).require(&["bulk-ops>=2", "builder:StringViewBuilder", "builder:BinaryViewBuilder"]))
    .sub(Sub::new("record_batch", 10000, 200000, sub_batches).tape(256, 12000))
    .run()
}
