//! C02 — array content, equality and kernel results depend only on logical values.
use arrow_array::{make_array, Array};
use serde_json::json;
use vp_engine::ensure;
use vp_engine::extract::extract;
use vp_engine::model::*;
use vp_engine::r#gen::*;
use vp_engine::realise::*;
use vp_engine::runner::*;
use vp_engine::validate::check_valid;

fn describe(c: &mut Case, ty: &LType, col: &[LValue]) {
    c.describe(json!({"type": format!("{}", ty.arrow()), "len": col.len(), "values": short_vec(col)}));
}

/// sub-check 1: read-back through accessors equals the model, for every layout
fn sub_readback(c: &mut Case) -> CaseResult {
    let cfg = TypeCfg::all();
    let ty = gen_type(&mut c.tape, &cfg);
    let len = gen_len(&mut c.tape);
    let col = gen_column(&mut c.tape, &ty, true, len, &ValCfg::default());
    describe(c, &ty, &col);
    c.class(ty.family());
    let lay = Lay { fancy: true, dict_value_nulls: true, slice_chance: 128 };
    let arr = no_panic("realise", || realise(&mut c.tape, &ty, &col, true, &lay))?;
    ensure!(arr.data_type() == &ty.arrow(), "realise:type", "realised type {} != {}", arr.data_type(), ty.arrow());
    let got = no_panic("extract", || extract(arr.as_ref()))?;
    if let Some(i) = first_diff(&got, &col) {
        return Err(Fail::new(format!("readback:{}", ty.family()), format!("row {}: read {:?} expected {:?}", i, got.get(i), col.get(i))));
    }
    check_valid(arr.as_ref(), "realise")?;
    let data = arr.to_data();
    // make_array(to_data) round trip
    let again = no_panic("make_array", || make_array(data.clone()))?;
    let got2 = no_panic("extract2", || extract(again.as_ref()))?;
    ensure!(first_diff(&got2, &col).is_none(), "to_data-roundtrip", "make_array(to_data()) reads differently");
    if col.iter().any(|v| v.is_null()) && col.len() >= 3 {
        c.nontrivial();
    }
    c.evals(3);
    Ok(())
}

fn main() {
    Check::new("C02", "exploration", "cases = (logical type, column, physical layouts); non-trivial = column with >=1 null and >=3 rows realised with layout variation")
        .sub(Sub::new("readback", 4000, 100000, sub_readback).tape(256, 6000))
        .run()
}
