//! C02 — array content, equality and kernel results depend only on logical values.
#[path = "../kernels.rs"]
mod kernels;
use arrow_array::{make_array, Array, ArrayRef};
use kernels::*;
use serde_json::json;
use vp_engine::ensure;
use vp_engine::extract::extract;
use vp_engine::model::*;
use vp_engine::r#gen::*;
use vp_engine::realise::*;
use vp_engine::runner::*;
use vp_engine::validate::check_valid;

fn describe(c: &mut Case, ty: &LType, col: &[LValue]) {
    c.describe(json!({"type": format!("{}", ty.arrow()), "len": col.len(), "values": short_vec(col)}));
}

/// sub-check 1: read-back through accessors equals the model, for every layout
fn sub_readback(c: &mut Case) -> CaseResult {
    let cfg = TypeCfg::all();
    let ty = gen_type(&mut c.tape, &cfg);
    let len = gen_len(&mut c.tape);
    let col = gen_column(&mut c.tape, &ty, true, len, &ValCfg::default());
    describe(c, &ty, &col);
    c.class(ty.family());
    let lay = Lay { fancy: true, dict_value_nulls: true, slice_chance: 128 };
    let arr = no_panic("realise", || realise(&mut c.tape, &ty, &col, true, &lay))?;
    ensure!(arr.data_type() == &ty.arrow(), "realise:type", "realised type {} != {}", arr.data_type(), ty.arrow());
    let got = no_panic("extract", || extract(arr.as_ref()))?;
    if let Some(i) = first_diff(&got, &col) {
        return Err(Fail::new(format!("readback:{}", ty.family()), format!("row {}: read {:?} expected {:?}", i, got.get(i), col.get(i))));
    }
    check_valid(arr.as_ref(), "realise")?;
    let data = arr.to_data();
    // make_array(to_data) round trip
    let again = no_panic("make_array", || make_array(data.clone()))?;
    let got2 = no_panic("extract2", || extract(again.as_ref()))?;
    ensure!(first_diff(&got2, &col).is_none(), "to_data-roundtrip", "make_array(to_data()) reads differently");
    if col.iter().any(|v| v.is_null()) && col.len() >= 3 {
        c.nontrivial();
    }
    c.evals(3);
    Ok(())
}

fn sub_findings(c: &mut Case) -> CaseResult {
    use arrow_array::{Int32Array, StructArray};
    use arrow_schema::{DataType, Field, Fields};
    let _ = c.tape.u64();
    c.nontrivial();
    c.describe(json!({"finding_case": c.index}));
    if c.index == 1 {
        // fixed 3c80875: byte view equality of a sub-range (struct children) must consult the validity of that range
        use arrow_array::StringViewArray;
        let mk = |garbage: &str| -> ArrayRef {
            // row 0 valid struct, row 1 null struct; child views: row 0 "x", row 1 garbage; child row 1 null
            let child = StringViewArray::from(vec![Some("a long string that is not inlined"), Some(garbage), Some("tail value not inlined either")]);
            let child = StringViewArray::try_new(child.views().clone(), child.data_buffers().to_vec(), Some(arrow_buffer::NullBuffer::from(vec![true, false, true]))).unwrap();
            let st = StructArray::try_new(Fields::from(vec![Field::new("a", DataType::Utf8View, true)]), vec![std::sync::Arc::new(child) as ArrayRef], None).unwrap();
            std::sync::Arc::new(st.slice(1, 2))
        };
        let (a, b) = (mk("garbage one, long enough to spill"), mk("garbage two, long enough to spill"));
        ensure!(a.as_ref() == b.as_ref(), "eq:same-logical:struct", "struct<utf8view> slices equal except for the payload of a null child slot compare unequal");
    }
    if c.index == 2 {
        // fixed 8c29753: sparse union equality must ignore unselected children
        use arrow_array::UnionArray;
        use arrow_schema::UnionFields;
        let uf = UnionFields::try_new(vec![0i8, 1], vec![Field::new("a", DataType::Int32, true), Field::new("b", DataType::Int32, true)]).unwrap();
        let mk = |other: i32| UnionArray::try_new(uf.clone(), vec![0i8, 0].into(), None, vec![std::sync::Arc::new(Int32Array::from(vec![1, 2])) as ArrayRef, std::sync::Arc::new(Int32Array::from(vec![other, other])) as ArrayRef]).unwrap();
        let (a, b): (ArrayRef, ArrayRef) = (std::sync::Arc::new(mk(7)), std::sync::Arc::new(mk(8)));
        ensure!(a.as_ref() == b.as_ref(), "eq:same-logical:union", "sparse unions that differ only in unselected child slots compare unequal");
    }
    if c.index == 3 {
        // fixed 946878a: list-view equality must compare the sizes of valid slots
        use arrow_array::ListViewArray;
        let f = std::sync::Arc::new(Field::new("item", DataType::Int32, true));
        let child: ArrayRef = std::sync::Arc::new(Int32Array::from(vec![1, 2, 3]));
        let nulls = Some(arrow_buffer::NullBuffer::from(vec![true, false]));
        let a: ArrayRef = std::sync::Arc::new(ListViewArray::try_new(f.clone(), vec![0i32, 0].into(), vec![0i32, 0].into(), child.clone(), nulls.clone()).unwrap());
        let b: ArrayRef = std::sync::Arc::new(ListViewArray::try_new(f.clone(), vec![0i32, 0].into(), vec![2i32, 0].into(), child.clone(), nulls.clone()).unwrap());
        ensure!(a.as_ref() != b.as_ref(), "eq:different-logical:listview", "list-view [[], null] compares equal to [[1,2], null]");
    }
    if c.index == 4 {
        // open (same root as C13f9b): a strict cast also converts bytes that no offset range refers to
        use arrow_array::BinaryArray;
        use arrow_buffer::{Buffer, OffsetBuffer};
        let a = BinaryArray::try_new(OffsetBuffer::new(vec![1i32, 2].into()), Buffer::from_vec(vec![0xffu8, b'a']), None).unwrap();
        let r = no_panic("cast", || arrow_cast::cast_with_options(&a, &DataType::Utf8, &arrow_cast::CastOptions { safe: false, ..Default::default() }))?;
        if let Err(e) = r {
            return Err(Fail::new("cast:strict:unreferenced-storage", format!("strict cast Binary[\"a\"] (first offset 1, an invalid byte before it) -> Utf8 fails: {}", e)));
        }
    }
    if c.index == 5 {
        // open (same root as C13f9): a strict cast of a dictionary also converts values no key refers to
        use arrow_array::{types::Int8Type, DictionaryArray, Int8Array};
        let d = DictionaryArray::<Int8Type>::try_new(Int8Array::from(vec![0i8]), std::sync::Arc::new(Int32Array::from(vec![1, -9]))).unwrap();
        let r = no_panic("cast", || arrow_cast::cast_with_options(&d, &DataType::UInt64, &arrow_cast::CastOptions { safe: false, ..Default::default() }))?;
        if let Err(e) = r {
            return Err(Fail::new("cast:strict:unreferenced-storage", format!("strict cast Dictionary[1] (with an unused value -9) -> UInt64 fails: {}", e)));
        }
    }
    if c.index == 6 {
        // fixed 6c888e7: UnionArray::from(ArrayData) must apply the offset to the children of a sparse union
        use arrow_array::UnionArray;
        use arrow_schema::UnionFields;
        let uf = UnionFields::try_new(vec![0i8], vec![Field::new("a", DataType::Int32, true)]).unwrap();
        let u = UnionArray::try_new(uf, vec![0i8, 0, 0].into(), None, vec![std::sync::Arc::new(Int32Array::from(vec![1, 2, 3])) as ArrayRef]).unwrap();
        let sliced = make_array(u.to_data().slice(1, 2));
        let got = extract(sliced.as_ref());
        let want = vec![LValue::Union(0, Box::new(LValue::Int(2))), LValue::Union(0, Box::new(LValue::Int(3)))];
        ensure!(got == want, "arraydata-slice:row:union", "make_array(sparse_union_data.slice(1,2)) = {:?}", got);
    }
    if c.index == 0 {
        // F1
        let st = StructArray::try_new(Fields::from(vec![Field::new("a", DataType::Int32, true)]), vec![std::sync::Arc::new(Int32Array::from(vec![1, 2, 3])) as ArrayRef], None).unwrap();
        let sliced = st.to_data().slice(1, 2);
        if let Err(p) = catch(|| make_array(sliced.clone())) {
            return Err(Fail::new("make_array:struct:sliced-arraydata", format!("make_array(struct_data.slice(1,2)) panics: {} at {}", p.msg, p.loc)));
        }
    }
    Ok(())
}

fn tcfg2() -> TypeCfg {
    let mut c = TypeCfg::all();
    c.depth = 2;
    c
}

fn lay() -> Lay {
    Lay { fancy: true, dict_value_nulls: false, slice_chance: 128 }
}

/// sub-check 2: `==` holds exactly when type, length, null positions and values coincide
fn sub_equality(c: &mut Case) -> CaseResult {
    let ty = gen_type(&mut c.tape, &tcfg2());
    let n = gen_len(&mut c.tape).min(60);
    let col = gen_column(&mut c.tape, &ty, true, n, &ValCfg::default());
    describe(c, &ty, &col);
    let fam = ty.family();
    c.class(fam);
    let a1 = realise(&mut c.tape, &ty, &col, true, &lay());
    let a2 = realise(&mut c.tape, &ty, &col, true, &lay());
    let eq = |x: &ArrayRef, y: &ArrayRef, what: &str| -> Result<bool, Fail> { no_panic(what, || x.as_ref() == y.as_ref()) };
    ensure!(eq(&a1, &a1, "eq")?, format!("eq:reflexive:{}", fam), "array != itself");
    let e12 = eq(&a1, &a2, "eq")?;
    let e21 = eq(&a2, &a1, "eq")?;
    ensure!(e12 == e21, format!("eq:symmetric:{}", fam), "a==b is {} but b==a is {}", e12, e21);
    ensure!(e12, format!("eq:same-logical:{}", fam), "two realisations of the same logical column compare unequal ({} rows of {})", n, ty.arrow());
    // ArrayData == as well
    let d12 = no_panic("ArrayData::eq", || a1.to_data() == a2.to_data())?;
    ensure!(d12, format!("eq:arraydata:{}", fam), "ArrayData of two realisations of the same logical column compare unequal");
    c.evals(4);
    // perturbations must compare unequal
    if n > 0 {
        let i = c.tape.below(n);
        let mut col2 = col.clone();
        let kind = c.tape.below(3);
        let mut changed = false;
        match kind {
            0 => {
                for _ in 0..8 {
                    let v = gen_value(&mut c.tape, &ty, !matches!(ty, LType::Union { .. }), &ValCfg::default());
                    if v != col[i] {
                        col2[i] = v;
                        changed = true;
                        break;
                    }
                }
            }
            1 => {
                col2.pop();
                changed = true;
            }
            _ => {
                if !col[i].is_null() && !matches!(ty, LType::Union { .. }) {
                    col2[i] = LValue::Null;
                    changed = true;
                }
            }
        }
        if changed {
            let a3 = realise(&mut c.tape, &ty, &col2, true, &lay());
            ensure!(!eq(&a1, &a3, "eq")?, format!("eq:different-logical:{}", fam), "arrays with different logical content compare equal (perturbation {} at row {}: {:?} vs {:?})", kind, i, col.get(i).map(|v| v.short()), col2.get(i).map(|v| v.short()));
            ensure!(!eq(&a3, &a1, "eq")?, format!("eq:different-logical:{}", fam), "arrays with different logical content compare equal");
            c.evals(2);
        }
    }
    if col.iter().any(|v| v.is_null()) && n >= 3 {
        c.nontrivial();
    }
    Ok(())
}

fn outcome(r: &Result<ArrayRef, arrow_schema::ArrowError>) -> Result<(arrow_schema::DataType, Vec<LValue>), String> {
    match r {
        Ok(a) => Ok((a.data_type().clone(), extract(a.as_ref()))),
        Err(e) => Err(err_class(e)),
    }
}

/// sub-check 3: K(a1, args1) is logically equal to K(a2, args2), same Ok/Err outcome
fn sub_congruence(c: &mut Case) -> CaseResult {
    set_avoid_known(!c.strict);
    let ty = gen_type(&mut c.tape, &tcfg2());
    let n = gen_len(&mut c.tape).min(80);
    let col = gen_column(&mut c.tape, &ty, true, n, &ValCfg::default());
    let st = gen_stage(&mut c.tape, &ty, &col, true);
    let name = st.name();
    let kname = name.split('(').next().unwrap_or(&name).to_string();
    let fam = ty.family();
    c.class(format!("kernel:{}", kname));
    c.class(format!("type:{}", fam));
    c.describe(json!({"type": ty.arrow().to_string(), "len": n, "kernel": name, "values": short_vec(&col)}));
    let a1 = realise(&mut c.tape, &ty, &col, true, &lay());
    let a2 = realise(&mut c.tape, &ty, &col, true, &lay());
    let a3 = realise(&mut c.tape, &ty, &col, true, &Lay::plain());
    let what = format!("{}[{}]", kname, fam);
    let r1 = no_panic(&what, || run_stage(&st, &mut c.tape, &ty, &a1))?;
    let r2 = no_panic(&what, || run_stage(&st, &mut c.tape, &ty, &a2))?;
    let r3 = no_panic(&what, || run_stage(&st, &mut c.tape, &ty, &a3))?;
    let (o1, o2, o3) = (outcome(&r1), outcome(&r2), outcome(&r3));
    for (oa, ob, label) in [(&o1, &o2, "fancy/fancy"), (&o1, &o3, "fancy/plain")] {
        match (oa, ob) {
            (Ok(x), Ok(y)) => {
                ensure!(x.0 == y.0, format!("congruence:{}:type", what), "{}: result types differ between realisations ({}): {} vs {}", name, label, x.0, y.0);
                if let Some(i) = first_diff(&x.1, &y.1) {
                    return Err(Fail::new(format!("congruence:{}:row", what), format!("{}: row {} differs between two realisations ({}) of the same logical input: {:?} vs {:?}", name, i, label, x.1.get(i).map(|v| v.short()), y.1.get(i).map(|v| v.short()))));
                }
            }
            (Err(x), Err(y)) => ensure!(x == y, format!("congruence:{}:err-kind", what), "{}: different error kinds between realisations ({}): {} vs {}", name, label, x, y),
            (Ok(_), Err(e)) | (Err(e), Ok(_)) => {
                return Err(Fail::new(format!("congruence:{}:ok-vs-err", what), format!("{}: one realisation ({}) succeeds, the other fails with {}", name, label, e)));
            }
        }
    }
    if col.iter().any(|v| v.is_null()) && n >= 3 {
        c.nontrivial();
    }
    c.evals(3);
    Ok(())
}

/// sub-check 4: row-wise kernels commute with take / slice
fn sub_commutation(c: &mut Case) -> CaseResult {
    set_avoid_known(!c.strict);
    let ty = gen_type(&mut c.tape, &tcfg2());
    let n = 1 + gen_len(&mut c.tape).min(60);
    let col = gen_column(&mut c.tape, &ty, true, n, &ValCfg::default());
    let mut st = gen_stage(&mut c.tape, &ty, &col, true);
    for _ in 0..6 {
        if st.row_wise() {
            break;
        }
        st = gen_stage(&mut c.tape, &ty, &col, true);
    }
    if !st.row_wise() {
        return Ok(());
    }
    let name = st.name();
    let kname = name.split('(').next().unwrap_or(&name).to_string();
    let fam = ty.family();
    c.class(format!("kernel:{}", kname));
    let use_slice = c.tape.chance(80);
    let idx: Vec<usize> = if use_slice {
        let o = c.tape.below(n);
        let l = c.tape.below(n - o + 1);
        (o..o + l).collect()
    } else {
        let m = c.tape.below(n + 4);
        (0..m).map(|_| c.tape.below(n)).collect()
    };
    c.class(if use_slice { "selection:slice" } else { "selection:take" });
    c.describe(json!({"type": ty.arrow().to_string(), "len": n, "kernel": name, "selection": format!("{:?}", idx.iter().take(16).collect::<Vec<_>>())}));
    let a = realise(&mut c.tape, &ty, &col, true, &lay());
    let what = format!("{}[{}]", kname, fam);
    // right-hand side: select(K(a))
    let full = no_panic(&what, || run_stage(&st, &mut c.tape, &ty, &a))?;
    let Ok(full) = full else { return Ok(()) };
    let full_vals = extract(full.as_ref());
    let rhs: Vec<LValue> = idx.iter().map(|i| full_vals[*i].clone()).collect();
    // left-hand side: K(select(a))
    let sel_col: Vec<LValue> = idx.iter().map(|i| col[*i].clone()).collect();
    let sel_arr = if use_slice && !idx.is_empty() { a.slice(idx[0], idx.len()) } else { realise(&mut c.tape, &ty, &sel_col, true, &lay()) };
    let st2 = st.select_rows(&idx);
    let lhs = no_panic(&what, || run_stage(&st2, &mut c.tape, &ty, &sel_arr))?;
    match lhs {
        Err(e) => return Err(Fail::new(format!("commutation:{}:err", what), format!("{} succeeds on the whole array but fails on the selected rows: {}", name, e))),
        Ok(l) => {
            ensure!(l.data_type() == full.data_type(), format!("commutation:{}:type", what), "{}: type of K(select(a)) {} != type of select(K(a)) {}", name, l.data_type(), full.data_type());
            let lv = extract(l.as_ref());
            if let Some(i) = first_diff(&lv, &rhs) {
                return Err(Fail::new(format!("commutation:{}:row", what), format!("{}: K(select(a))[{}] = {:?} but select(K(a))[{}] = {:?}", name, i, lv.get(i).map(|v| v.short()), i, rhs.get(i).map(|v| v.short()))));
            }
        }
    }
    if idx.len() >= 2 && col.iter().any(|v| v.is_null()) {
        c.nontrivial();
    }
    c.evals(2);
    Ok(())
}

/// sub-check 5: ArrayData::slice + make_array as a layout source
fn sub_arraydata_slice(c: &mut Case) -> CaseResult {
    let ty = gen_type(&mut c.tape, &tcfg2());
    let n = 1 + gen_len(&mut c.tape).min(60);
    let col = gen_column(&mut c.tape, &ty, true, n, &ValCfg::default());
    describe(c, &ty, &col);
    c.class(ty.family());
    let a = realise(&mut c.tape, &ty, &col, true, &lay());
    let o = c.tape.below(n);
    let l = c.tape.below(n - o + 1);
    let d = no_panic("ArrayData::slice", || a.to_data().slice(o, l))?;
    let b = match catch(|| make_array(d.clone())) {
        Ok(b) => b,
        Err(p) => return Err(Fail::new(if p.msg.contains("end <= self.len()") { "make_array:struct:sliced-arraydata".to_string() } else { format!("make_array(sliced):{}", p.sig()) }, format!("make_array(data.slice({},{})) panicked: {} at {}", o, l, p.msg, p.loc))),
    };
    let got = no_panic("extract", || extract(b.as_ref()))?;
    if let Some(i) = first_diff(&got, &col[o..o + l]) {
        return Err(Fail::new(format!("arraydata-slice:row:{}", ty.family()), format!("make_array(data.slice({},{})) row {}: {:?} expected {:?}", o, l, i, got.get(i), col.get(o + i))));
    }
    check_valid(b.as_ref(), "make_array(ArrayData::slice)")?;
    ensure!(no_panic("eq", || b.as_ref() == a.slice(o, l).as_ref())?, format!("arraydata-slice:eq:{}", ty.family()), "make_array(data.slice) != Array::slice");
    if o > 0 && l >= 2 {
        c.nontrivial();
    }
    c.evals(2);
    Ok(())
}

fn main() {
    Check::new("C02", "exploration", "cases = (logical type of depth<=2..3, column with a generated null pattern, two or three independent physical realisations: sliced/padded, validity present or absent, garbage under nulls, permuted/duplicated/unused dictionary values, out-of-range keys under nulls, split runs, list-view child order, several view buffers; kernel from the catalogue with auxiliary arguments realised independently per run). Sub-checks: read-back vs model, equality (same logical => equal, perturbed => unequal), congruence of kernel results and Ok/Err outcome across realisations, commutation of row-wise kernels with take/slice, ArrayData::slice as layout source. Non-trivial = column with >=1 null and >=3 rows (commutation: >=2 selected rows).")
        .assume("== on dictionary arrays compares key nulls physically: realisations keep nulls on the key side")
        .assume("kernels whose documented result depends on physical form (dictionary GC, memory sizes) are not part of the congruence check; sort outputs are compared by value (sort is not stable)")
        .sub(Sub::new("findings", 0, 0, sub_findings).enumerate(7, 7))
        .sub(Sub::new("readback", 30000, 600000, sub_readback).tape(256, 6000))
        .sub(Sub::new("equality", 20000, 400000, sub_equality).tape(256, 8000))
        .sub(Sub::new("congruence", 40000, 800000, sub_congruence).tape(256, 10000))
        .sub(Sub::new("commutation", 30000, 600000, sub_commutation).tape(256, 10000))
        .sub(Sub::new("arraydata_slice", 15000, 300000, sub_arraydata_slice).tape(256, 6000))
        .run()
}
