//! C14 — incremental (push) decoders are independent of how the input is chunked.
//!
//! One sub-check per decoder family.  Every case = one input (valid writer output, hand-grammar text, or a
//! truncated / one-byte-corrupted variant) explored under many chunk schedules with a protocol-respecting driver.
#![allow(clippy::too_many_arguments, clippy::type_complexity)]
use arrow_array::{RecordBatch, RecordBatchOptions};
use arrow_buffer::Buffer;
use arrow_schema::{ArrowError, DataType, Field, Fields, Schema, SchemaRef};
use serde_json::json;
use std::collections::BTreeSet;
use std::sync::Arc;
use vp_engine::batch::*;
use vp_engine::ensure;
use vp_engine::extract::extract;
use vp_engine::model::*;
use vp_engine::r#gen::*;
use vp_engine::realise::Lay;
use vp_engine::runner::*;
use vp_engine::tape::{hex, Tape};

// =====================================================================================================
// deterministic per-schedule randomness (a pure function of a seed drawn from the tape; seed 0 => all zeros,
// so an exhausted / shrunk tape still decodes to the simplest choices)
struct Rng {
    s: u64,
    zero: bool,
}
impl Rng {
    fn new(seed: u64) -> Self {
        Rng { s: seed, zero: seed == 0 }
    }
    fn next(&mut self) -> u64 {
        if self.zero {
            return 0;
        }
        self.s = self.s.wrapping_add(0x9E3779B97F4A7C15);
        let mut z = self.s;
        z = (z ^ (z >> 30)).wrapping_mul(0xBF58476D1CE4E5B9);
        z = (z ^ (z >> 27)).wrapping_mul(0x94D049BB133111EB);
        z ^ (z >> 31)
    }
    fn below(&mut self, n: usize) -> usize {
        if n <= 1 {
            return 0;
        }
        (((self.next() >> 32) * n as u64) >> 32) as usize
    }
    /// true with probability num/256 (never for the zero generator)
    fn chance(&mut self, num: u32) -> bool {
        ((self.next() >> 56) as u32) >= 256 - num.min(256) && !self.zero
    }
}

// =====================================================================================================
// outcome of one driver run
#[derive(Clone, Debug)]
struct Out {
    /// schema announced by the decoder independently of batches (if it has such an accessor)
    decl: Option<SchemaRef>,
    /// consecutive-distinct schemas of the emitted batches
    schemas: Vec<SchemaRef>,
    /// emitted rows in order: (index into `schemas`, logical values)
    rows: Vec<(usize, Vec<LValue>)>,
    sizes: Vec<usize>,
    /// Ok or (error class, message)
    res: Result<(), (String, String)>,
    /// further facts that must be identical under the canonical driver (e.g. unconsumed byte count)
    info: String,
}
impl Out {
    fn new() -> Self {
        Out { decl: None, schemas: vec![], rows: vec![], sizes: vec![], res: Ok(()), info: String::new() }
    }
    fn push(&mut self, b: &RecordBatch) {
        let s = b.schema();
        if self.schemas.last() != Some(&s) {
            self.schemas.push(s);
        }
        let idx = self.schemas.len() - 1;
        let n = b.num_rows();
        self.sizes.push(n);
        if n > 20_000 {
            // corrupted inputs may declare absurd lengths for zero-width columns: do not materialise
            self.rows.push((idx, vec![LValue::Str(format!("<{} rows>", n))]));
            return;
        }
        let mut its: Vec<_> = b.columns().iter().map(|c| extract(c.as_ref()).into_iter()).collect();
        for _ in 0..n {
            self.rows.push((idx, its.iter_mut().map(|i| i.next().unwrap()).collect()));
        }
    }
    fn fail(&mut self, class: impl Into<String>, msg: impl Into<String>) {
        if self.res.is_ok() {
            self.res = Err((class.into(), msg.into()));
        }
    }
    fn class(&self) -> &str {
        match &self.res {
            Ok(()) => "ok",
            Err((c, _)) => c,
        }
    }
}

fn aclass(e: &ArrowError) -> String {
    let s = e.to_string();
    s.split(':').next().unwrap_or("").to_string()
}

/// run a driver, mapping a panic to the outcome class "panic" (C14: a panic is an outcome like any other and must
/// not depend on the chunking)
fn guarded(f: impl FnOnce() -> Out) -> Out {
    match catch(f) {
        Ok(o) => o,
        Err(p) => {
            let mut o = Out::new();
            o.fail("panic", format!("{} at {}", p.msg, p.loc));
            o
        }
    }
}

fn row_diff(a: &[(usize, Vec<LValue>)], b: &[(usize, Vec<LValue>)]) -> Option<usize> {
    let m = a.len().min(b.len());
    if let Some(i) = (0..m).find(|i| a[*i] != b[*i]) {
        return Some(i);
    }
    if a.len() != b.len() { Some(m) } else { None }
}
fn is_prefix(a: &[(usize, Vec<LValue>)], of: &[(usize, Vec<LValue>)]) -> bool {
    a.len() <= of.len() && (0..a.len()).all(|i| a[i].1 == of[i].1)
}
fn show_row(o: &Out, i: usize) -> String {
    o.rows.get(i).map(|r| format!("{:?}", r.1)).unwrap_or_else(|| "<none>".into()).chars().take(200).collect()
}

/// exact agreement (canonical driver under another chunking, or the pull reader)
fn cmp_exact(fam: &str, what: &str, r: &Out, o: &Out, sched: &str, with_sizes: bool) -> CaseResult {
    ensure!(r.class() == o.class(), format!("{fam}:{what}:outcome"), "{fam}: outcome {:?} (reference) vs {:?} under {sched}; rows {} vs {}", r.res, o.res, r.rows.len(), o.rows.len());
    if r.decl.is_some() && o.decl.is_some() || what != "pull" {
        ensure!(r.decl == o.decl, format!("{fam}:{what}:schema"), "{fam}: announced schema {:?} vs {:?} under {sched}", r.decl, o.decl);
    }
    if !(what == "pull" && (r.schemas.is_empty() || o.schemas.is_empty())) {
        ensure!(r.schemas == o.schemas, format!("{fam}:{what}:schema"), "{fam}: batch schemas {:?} vs {:?} under {sched}", r.schemas, o.schemas);
    }
    if let Some(i) = row_diff(&r.rows, &o.rows) {
        return Err(Fail::new(format!("{fam}:{what}:rows"), format!("{fam}: row {i} is {} (reference, {} rows) vs {} ({} rows) under {sched}", show_row(r, i), r.rows.len(), show_row(o, i), o.rows.len())));
    }
    if with_sizes {
        ensure!(r.sizes == o.sizes, format!("{fam}:{what}:batch-sizes"), "{fam}: batch sizes {:?} vs {:?} under {sched}", r.sizes, o.sizes);
    }
    if what != "pull" {
        ensure!(r.info == o.info, format!("{fam}:{what}:info"), "{fam}: {} vs {} under {sched}", r.info, o.info);
    }
    Ok(())
}

/// agreement under a driver with extra legal flush points: same row sequence on Ok; on Err still Err and the
/// emitted rows are a prefix of the maximal valid row sequence
fn cmp_extra(fam: &str, r: &Out, o: &Out, maxrows: Option<&Out>, sched: &str) -> CaseResult {
    ensure!(r.res.is_ok() == o.res.is_ok() && (r.class() == "panic") == (o.class() == "panic"), format!("{fam}:extra:outcome"), "{fam}: outcome {:?} (reference) vs {:?} under {sched}", r.res, o.res);
    if r.res.is_ok() {
        if let Some(i) = row_diff(&r.rows, &o.rows) {
            return Err(Fail::new(format!("{fam}:extra:rows"), format!("{fam}: row {i} is {} (reference, {} rows) vs {} ({} rows) under {sched}", show_row(r, i), r.rows.len(), show_row(o, i), o.rows.len())));
        }
        ensure!(r.schemas == o.schemas, format!("{fam}:extra:schema"), "{fam}: batch schemas differ under {sched}");
    } else if let Some(m) = maxrows {
        ensure!(is_prefix(&o.rows, &m.rows), format!("{fam}:extra:prefix"), "{fam}: rows emitted before the error ({}) are not a prefix of the valid rows ({}) under {sched}", o.rows.len(), m.rows.len());
    }
    Ok(())
}

fn check_bs(fam: &str, o: &Out, bs: usize, sched: &str) -> CaseResult {
    for s in &o.sizes {
        ensure!(*s <= bs, format!("{fam}:batch-size-exceeded"), "{fam}: batch of {} rows with batch_size {} under {sched}", s, bs);
    }
    Ok(())
}

// =====================================================================================================
// chunk schedules
#[derive(Clone, Copy, Debug)]
struct Span {
    a: usize,
    b: usize,
    kind: &'static str,
}
fn span(a: usize, b: usize, kind: &'static str) -> Span {
    Span { a, b, kind }
}

#[derive(Clone, Copy, PartialEq, Debug)]
enum Mode {
    Canon,
    Extra,
}

struct Ex<'a> {
    n: usize,
    spans: &'a [Span],
    /// empty chunks are legal input for this decoder
    allow_empty: bool,
    /// cut positions that must not be generated (known-finding exclusion)
    forbid: &'a dyn Fn(usize) -> bool,
    /// run Extra-mode schedules
    extra: bool,
}

fn ranges(n: usize, cuts: &[usize]) -> Vec<(usize, usize)> {
    let mut v = Vec::with_capacity(cuts.len() + 1);
    let mut p = 0;
    for c in cuts {
        v.push((p, *c));
        p = *c;
    }
    v.push((p, n));
    v
}

fn sched_name(cuts: &[usize]) -> String {
    if cuts.len() > 12 {
        format!("cuts[{}]={:?}…", cuts.len(), &cuts[..12])
    } else {
        format!("cuts={:?}", cuts)
    }
}

fn gen_schedules(c: &mut Case, ex: &Ex) -> Vec<Vec<usize>> {
    let n = ex.n;
    let ok = |p: usize| p >= 1 && p < n && !(ex.forbid)(p);
    let mut out: Vec<Vec<usize>> = vec![];
    if n < 2 {
        if ex.allow_empty {
            out.push(vec![0]);
            out.push(vec![n]);
        }
        return out;
    }
    let thorough = c.tier == Tier::Thorough;
    let mut hot: Vec<usize> = vec![];
    for s in ex.spans {
        for p in [s.a, s.a + 1, (s.a + s.b) / 2, s.b.saturating_sub(1), s.b] {
            if ok(p) {
                hot.push(p);
            }
        }
    }
    hot.sort();
    hot.dedup();
    // every single split point
    let limit = if thorough { 16384 } else { 4096 };
    if n <= limit {
        for p in 1..n {
            if ok(p) {
                out.push(vec![p]);
            }
        }
    } else {
        for p in &hot {
            out.push(vec![*p]);
        }
        for _ in 0..256 {
            let p = 1 + c.tape.below(n - 1);
            if ok(p) {
                out.push(vec![p]);
            }
        }
    }
    // one byte at a time, and fixed chunk sizes
    out.push((1..n).filter(|p| ok(*p)).collect());
    for k in [2usize, 3, 7, 64] {
        if k < n {
            out.push((1..n).filter(|p| p % k == 0 && ok(*p)).collect());
        }
    }
    // random multi-splits biased to token edges
    let nr = if thorough { 24 } else { 8 };
    for _ in 0..nr {
        let k = 1 + c.tape.below(12.min(n));
        let mut cuts: Vec<usize> = vec![];
        for _ in 0..k {
            let p = if !hot.is_empty() && c.tape.bool() { *c.tape.pick(&hot) } else { 1 + c.tape.below(n - 1) };
            if ok(p) {
                cuts.push(p);
            }
        }
        if ex.allow_empty {
            match c.tape.below(5) {
                1 => cuts.push(0),
                2 => cuts.push(n),
                3 => {
                    if let Some(p) = cuts.first().copied() {
                        cuts.push(p);
                        cuts.push(p);
                    }
                }
                _ => {}
            }
        }
        cuts.sort();
        if !ex.allow_empty {
            cuts.dedup();
        }
        out.push(cuts);
    }
    // all partitions of a short window placed over an interesting token
    let w = if thorough { 14 } else { 8 };
    let centre = if hot.is_empty() { 1 + c.tape.below(n - 1) } else { *c.tape.pick(&hot) };
    let start = centre.saturating_sub(c.tape.below(w)).max(1);
    let pos: Vec<usize> = (start..(start + w - 1).min(n)).filter(|p| ok(*p)).collect();
    if pos.len() >= 2 {
        c.class(if thorough { "window-partitions:2^13" } else { "window-partitions:2^7" });
        for mask in 1u32..(1u32 << pos.len()) {
            if mask.count_ones() < 2 {
                continue; // single splits are covered above
            }
            out.push(pos.iter().enumerate().filter(|(i, _)| mask >> i & 1 == 1).map(|(_, p)| *p).collect());
        }
    }
    out
}

/// Run all schedules; `run(cuts, mode, rng)` must be a pure function of its arguments.
fn explore(c: &mut Case, fam: &'static str, ex: &Ex, reference: &Out, maxrows: Option<&Out>, bs: Option<usize>, run: &dyn Fn(&[usize], Mode, &mut Rng) -> Out) -> CaseResult {
    let n = ex.n;
    let mut kind_at: Vec<Option<&'static str>> = vec![None; n + 1];
    for s in ex.spans {
        for p in (s.a + 1)..s.b.min(n + 1) {
            if kind_at[p].is_none() {
                kind_at[p] = Some(s.kind);
            }
        }
    }
    let seed = c.tape.u64();
    let scheds = gen_schedules(c, ex);
    let mut kinds: BTreeSet<&'static str> = BTreeSet::new();
    let mut evals = 0u64;
    if let Some(bs) = bs {
        check_bs(fam, reference, bs, "single chunk")?;
    }
    if reference.res.is_err() {
        if let Some(m) = maxrows {
            ensure!(is_prefix(&reference.rows, &m.rows), format!("{fam}:canon:prefix"), "{fam}: rows emitted before the error by the canonical single-chunk run are not a prefix of the batch_size=1 run");
        }
    }
    for (si, cuts) in scheds.iter().enumerate() {
        for p in cuts {
            match kind_at.get(*p).copied().flatten() {
                Some(k) => {
                    kinds.insert(k);
                }
                None => {
                    if *p > 0 && *p < n {
                        kinds.insert("boundary");
                    }
                }
            }
        }
        if cuts.windows(2).any(|w| w[0] == w[1]) || cuts.first() == Some(&0) || (cuts.last() == Some(&n) && n > 0) {
            kinds.insert("empty-chunk");
        }
        let mut rng = Rng::new(seed.wrapping_mul(0x100000001b3).wrapping_add(si as u64 + 1) * (seed != 0) as u64);
        let o = guarded(|| run(cuts, Mode::Canon, &mut rng));
        let name = sched_name(cuts);
        cmp_exact(fam, "chunking", reference, &o, &name, true)?;
        evals += 1;
        // a sample of schedules is additionally run with extra legal control calls
        if ex.extra && (si % 7 == 3 || cuts.len() > 1 && si % 3 == 0) {
            let o = guarded(|| run(cuts, Mode::Extra, &mut rng));
            cmp_extra(fam, reference, &o, maxrows, &name)?;
            if let Some(bs) = bs {
                check_bs(fam, &o, bs, &name)?;
            }
            kinds.insert("extra-control-calls");
            evals += 1;
        }
    }
    for k in &kinds {
        c.class(format!("split:{k}"));
    }
    if kinds.iter().any(|k| !matches!(*k, "boundary" | "empty-chunk" | "extra-control-calls")) {
        c.nontrivial();
    }
    c.class(format!("outcome:{}", if reference.res.is_ok() { "ok" } else { "err" }));
    c.evals(evals);
    Ok(())
}

/// truncated / one byte corrupted variants; positions biased to token edges
fn mutate(t: &mut Tape, data: &mut Vec<u8>, spans: &[Span], allowed: &dyn Fn(usize, bool) -> bool) -> &'static str {
    let n = data.len();
    if n == 0 {
        return "valid";
    }
    let pick_pos = |t: &mut Tape, upper: usize| -> usize {
        if !spans.is_empty() && t.bool() {
            let s = *t.pick(spans);
            let p = *t.pick(&[s.a, s.a + 1, (s.a + s.b) / 2, s.b.saturating_sub(1), s.b]);
            p.min(upper)
        } else {
            t.below(upper + 1)
        }
    };
    match t.below(8) {
        5 | 6 => {
            let p = pick_pos(t, n - 1);
            if !allowed(p, false) {
                return "valid";
            }
            data.truncate(p);
            "truncated"
        }
        7 => {
            let p = pick_pos(t, n - 1);
            if !allowed(p, true) {
                return "valid";
            }
            let x = *t.pick(&[1u8, 0x80, 0xff, 0x20, 0x02]);
            data[p] ^= x;
            "corrupted"
        }
        _ => "valid",
    }
}

fn desc_bytes(d: &[u8]) -> String {
    if d.len() <= 400 {
        hex(d)
    } else {
        format!("{}… ({} bytes)", hex(&d[..400]), d.len())
    }
}

// =====================================================================================================
// batches shared by the binary formats
fn no_small_ints(ty: &LType) -> bool {
    !ty.any(&|t| matches!(t, LType::Int { bits: 8 | 16, .. } | LType::Int { signed: false, .. }))
}

struct GenBatches {
    fields: Vec<LField>,
    schema: SchemaRef,
    batches: Vec<RecordBatch>,
}
fn gen_batches(t: &mut Tape, cfg: &TypeCfg, pred: &dyn Fn(&LType) -> bool, allow_zero_cols: bool, max_batches: usize, vcfg: &ValCfg, fancy: bool) -> GenBatches {
    let ncols = *t.pick(&[2usize, 1, 3, 0, 4]);
    let ncols = if ncols == 0 && !allow_zero_cols { 1 } else { ncols };
    let fields = gen_fields(t, cfg, ncols, pred);
    let schema = schema_of(&fields, None);
    let nb = t.below(max_batches + 1);
    let mut batches = vec![];
    for _ in 0..nb {
        let rows = if t.chance(20) { 20 + t.below(40) } else { *t.pick(&[3usize, 1, 0, 5, 2, 8]) };
        let lb = gen_lbatch(t, &fields, rows, vcfg);
        let lay = if fancy && t.bool() { Lay::fancy() } else { Lay::plain() };
        batches.push(realise_batch(t, &schema, &fields, &lb, rows, &lay));
    }
    GenBatches { fields, schema, batches }
}

// =====================================================================================================
// IPC StreamDecoder

/// message layout of an IPC stream: spans, bodyLength of the last complete message if the walk ended exactly at
/// the end of the data, EOS seen
fn ipc_walk(data: &[u8]) -> (Vec<Span>, Option<usize>, bool) {
    let len = data.len();
    let mut spans = vec![];
    let mut p = 0usize;
    let mut last = None;
    let rd = |q: usize| u32::from_le_bytes([data[q], data[q + 1], data[q + 2], data[q + 3]]);
    loop {
        if p + 4 > len {
            if p < len {
                spans.push(span(p, len, "prefix"));
                last = None;
            }
            return (spans, last, false);
        }
        let start = p;
        let mut w = rd(p);
        let mut q = p + 4;
        if w == 0xFFFF_FFFF {
            if q + 4 > len {
                spans.push(span(start, len, "prefix"));
                return (spans, None, false);
            }
            w = rd(q);
            q += 4;
        }
        spans.push(span(start, q, "prefix"));
        if w == 0 {
            return (spans, last, true);
        }
        let ml = w as usize;
        if q + ml > len {
            spans.push(span(q, len, "flatbuffer"));
            return (spans, None, false);
        }
        spans.push(span(q, q + ml, "flatbuffer"));
        let Ok(msg) = arrow_ipc::root_as_message(&data[q..q + ml]) else { return (spans, None, false) };
        let bl = msg.bodyLength();
        if bl < 0 || bl as usize > len {
            return (spans, None, false);
        }
        let bl = bl as usize;
        let bend = q + ml + bl;
        if bl > 0 {
            spans.push(span(q + ml, bend.min(len), "body"));
        }
        if bend > len {
            return (spans, None, false);
        }
        last = Some(bl);
        p = bend;
        if p == len {
            return (spans, last, false);
        }
    }
}

fn ipc_pull(data: &[u8]) -> Out {
    guarded(|| {
        let mut o = Out::new();
        match arrow_ipc::reader::StreamReader::try_new(std::io::Cursor::new(data.to_vec()), None) {
            Err(e) => o.fail(aclass(&e), e.to_string()),
            Ok(r) => {
                o.decl = Some(r.schema());
                for b in r {
                    match b {
                        Ok(b) => o.push(&b),
                        Err(e) => {
                            o.fail(aclass(&e), e.to_string());
                            break;
                        }
                    }
                }
            }
        }
        o
    })
}

#[derive(Clone, Copy, PartialEq, Debug)]
enum AlignMode {
    /// any base address / ownership for the pushed buffers
    Any,
    /// only buffers whose base address is congruent (mod 64) to the stream offset they carry (known finding F8)
    Safe,
    /// every buffer deliberately off by one byte (reproduction of F8)
    Misaligned,
}

/// copy of `d` in a fresh allocation whose first byte sits at address = `phase` (mod 64)
fn buffer_with_phase(d: &[u8], phase: usize) -> Buffer {
    let mut m = arrow_buffer::MutableBuffer::from_len_zeroed(d.len() + 64); // 64-byte aligned allocation
    let off = phase % 64;
    m.as_slice_mut()[off..off + d.len()].copy_from_slice(d);
    Buffer::from(m).slice_with_length(off, d.len())
}

fn ipc_run(data: &[u8], whole: &Buffer, cuts: &[usize], rng: &mut Rng, am: AlignMode) -> Out {
    let mut o = Out::new();
    let mut dec = arrow_ipc::reader::StreamDecoder::new();
    'outer: for (a, b) in ranges(data.len(), cuts) {
        let mut buf = match (am, rng.below(3)) {
            (AlignMode::Misaligned, _) => buffer_with_phase(&data[a..b], a + 1),
            (_, 0) => whole.slice_with_length(a, b - a),
            (AlignMode::Safe, _) => buffer_with_phase(&data[a..b], a),
            (_, 1) => buffer_with_phase(&data[a..b], 0),
            _ => buffer_with_phase(&data[a..b], 1 + rng.below(63)),
        };
        let mut first = true;
        while first || !buf.is_empty() {
            first = false;
            let before = buf.len();
            match dec.decode(&mut buf) {
                Ok(Some(b)) => o.push(&b),
                Ok(None) => {
                    if !buf.is_empty() && buf.len() == before {
                        o.fail("stuck", "decode returned None without consuming a non-empty buffer");
                        break 'outer;
                    }
                }
                Err(e) => {
                    o.fail(aclass(&e), e.to_string());
                    break 'outer;
                }
            }
        }
    }
    if o.res.is_ok() {
        if let Err(e) = dec.finish() {
            o.fail(format!("finish:{}", aclass(&e)), e.to_string());
        }
    }
    o.decl = dec.schema();
    o
}

fn ipc_case(c: &mut Case, fam: &'static str, data: Vec<u8>, valid: bool, what: serde_json::Value, am: AlignMode) -> CaseResult {
    let (spans, _, _) = ipc_walk(&data);
    c.describe(json!({"format": "ipc-stream", "input": what, "buffer_alignment": format!("{:?}", am), "bytes": desc_bytes(&data)}));
    let whole = buffer_with_phase(&data, 0);
    let run = |cuts: &[usize], _m: Mode, rng: &mut Rng| ipc_run(&data, &whole, cuts, rng, am);
    // reference: one chunk, stream start 64-byte aligned (what a reader over an aligned buffer sees)
    let reference = guarded(|| ipc_run(&data, &whole, &[], &mut Rng::new(0), if am == AlignMode::Misaligned { AlignMode::Safe } else { am }));
    if valid {
        let pull = ipc_pull(&data);
        cmp_exact(fam, "pull", &pull, &reference, "single chunk vs StreamReader", true)?;
        c.eval();
    }
    let ex = Ex { n: data.len(), spans: &spans, allow_empty: true, forbid: &|_| false, extra: false };
    explore(c, fam, &ex, &reference, None, None, &run)
}

fn ipc_write(schema: &Schema, batches: &[RecordBatch], t: &mut Tape) -> Result<(Vec<u8>, usize, bool), ArrowError> {
    use arrow_ipc::writer::{IpcWriteOptions, StreamWriter};
    let align = *t.pick(&[8usize, 64, 16]);
    let legacy = t.chance(24);
    let mut opts = IpcWriteOptions::try_new(align, legacy, if legacy { arrow_ipc::MetadataVersion::V4 } else { arrow_ipc::MetadataVersion::V5 })?;
    let mut compressed = !legacy;
    if !legacy {
        opts = match t.below(8) {
            6 => opts.try_with_compression(Some(arrow_ipc::CompressionType::LZ4_FRAME))?,
            7 => opts.try_with_compression(Some(arrow_ipc::CompressionType::ZSTD))?,
            _ => {
                compressed = false;
                opts
            }
        };
    }
    let mut buf = vec![];
    {
        let mut w = StreamWriter::try_new_with_options(&mut buf, schema, opts)?;
        for b in batches {
            w.write(b)?;
        }
        w.finish()?;
    }
    Ok((buf, if legacy { 4 } else { 8 }, compressed))
}

fn sub_ipc(c: &mut Case) -> CaseResult {
    let mut cfg = TypeCfg::all();
    cfg.depth = 2;
    let g = gen_batches(&mut c.tape, &cfg, &|_| true, true, 3, &ValCfg::default(), true);
    let (mut data, eos_len, compressed) = match catch(|| ipc_write(&g.schema, &g.batches, &mut c.tape)) {
        Ok(Ok(x)) => x,
        _ => {
            c.class("writer-unsupported");
            return Ok(());
        }
    };
    for f in &g.fields {
        c.class(format!("type:{}", f.ty.family()));
    }
    // (fixed finding F4: a stream without end-of-stream marker ending in a zero-body message is no longer excluded)
    let eos = !c.tape.chance(80);
    if !eos {
        let (_, last, _) = ipc_walk(&data[..data.len() - eos_len]);
        if last == Some(0) {
            c.class("no-eos-zero-body-last");
        }
    }
    if !eos {
        data.truncate(data.len() - eos_len);
        c.class("no-eos");
    }
    let (spans, _, _) = ipc_walk(&data);
    // compressed buffers start with an 8-byte uncompressed length that the reader trusts for an up-front allocation
    // (a corrupted length or buffer offset aborts the process: robustness, not chunking): compressed streams are only truncated
    let kind = mutate(&mut c.tape, &mut data, &spans, &|_, corrupt| !(compressed && corrupt));
    c.class(format!("input:{kind}"));
    if compressed {
        c.class("compressed");
    }
    let what = json!({"schema": format!("{:?}", g.schema.fields().iter().map(|f| f.data_type().to_string()).collect::<Vec<_>>()), "batches": g.batches.iter().map(|b| b.num_rows()).collect::<Vec<_>>(), "eos": eos, "mutation": kind});
    // known finding F8: a dense union column panics when the pushed buffer is not 4-byte aligned
    let dense_union = g.fields.iter().any(|f| f.ty.any(&|t| matches!(t, LType::Union { dense: true, .. })));
    let am = if dense_union && !c.strict {
        c.exclude(F8_KEY);
        AlignMode::Safe
    } else {
        AlignMode::Any
    };
    if dense_union {
        c.class("dense-union");
    }
    ipc_case(c, "ipc", data, kind == "valid", what, am)
}


const F8_KEY: &str = "F8-ipc-dense-union-unaligned-buffer-panics";

/// dedicated reproduction of F8: a valid V5 stream with a dense union column, pushed in buffers whose base address
/// is odd (require_alignment = false is documented to copy unaligned data instead of failing)
fn sub_ipc_f8(c: &mut Case) -> CaseResult {
    let fields = vec![LField {
        name: "u".into(),
        ty: LType::Union { dense: true, fields: vec![(0, LField::new("a", LType::Int { bits: 32, signed: true }, true)), (1, LField::new("b", LType::Utf8(Enc::O32), true))] },
        nullable: true,
    }];
    let schema = schema_of(&fields, None);
    let rows = 1 + c.tape.below(4);
    let lb = gen_lbatch(&mut c.tape, &fields, rows, &ValCfg::default());
    let batch = realise_batch(&mut c.tape, &schema, &fields, &lb, rows, &Lay::plain());
    let mut buf = vec![];
    {
        let mut w = arrow_ipc::writer::StreamWriter::try_new(&mut buf, &schema).map_err(|e| Fail::new("ipc:writer", e.to_string()))?;
        w.write(&batch).map_err(|e| Fail::new("ipc:writer", e.to_string()))?;
        w.finish().map_err(|e| Fail::new("ipc:writer", e.to_string()))?;
    }
    let am = if c.strict {
        AlignMode::Misaligned
    } else {
        c.exclude(F8_KEY);
        AlignMode::Safe
    };
    c.class("dense-union");
    ipc_case(c, "ipc_f8", buf, true, json!({"schema": "Union(Dense, a: Int32, b: Utf8)", "rows": rows}), am)
}

/// dedicated reproduction of F4: a valid stream WITHOUT end-of-stream marker whose last message has bodyLength 0
fn sub_ipc_f4(c: &mut Case) -> CaseResult {
    use arrow_ipc::writer::StreamWriter;
    let shape = c.tape.below(3);
    let schema = match shape {
        0 => Arc::new(Schema::empty()),
        _ => Arc::new(Schema::new(vec![Field::new("a", DataType::Int32, true)])),
    };
    let nb = 1 + c.tape.below(2);
    let mut buf = vec![];
    {
        let mut w = StreamWriter::try_new(&mut buf, &schema).map_err(|e| Fail::new("ipc:writer", e.to_string()))?;
        for _ in 0..nb {
            let b = match shape {
                0 => RecordBatch::try_new_with_options(schema.clone(), vec![], &RecordBatchOptions::new().with_row_count(Some(5))).unwrap(),
                1 => RecordBatch::new_empty(schema.clone()), // zero rows: all buffers empty
                _ => continue,                                 // schema message only
            };
            w.write(&b).map_err(|e| Fail::new("ipc:writer", e.to_string()))?;
        }
        w.finish().map_err(|e| Fail::new("ipc:writer", e.to_string()))?;
    }
    let (_, last, _) = ipc_walk(&buf[..buf.len() - 8]);
    ensure!(last == Some(0), "ipc:f4-shape", "generator did not produce a zero-length last body: {:?}", last);
    c.class(["shape:zero-column-batch", "shape:zero-row-batch", "shape:schema-only"][shape]);
    buf.truncate(buf.len() - 8);
    ipc_case(c, "ipc_f4", buf, true, json!({"shape": shape, "batches": nb, "eos": false}), AlignMode::Any)
}

// =====================================================================================================
// CSV Decoder
#[derive(Clone, Debug)]
struct CsvCfg {
    schema: SchemaRef,
    header: bool,
    bs: usize,
    bounds: Option<(usize, usize)>,
    projection: Option<Vec<usize>>,
    truncated: bool,
    delimiter: u8,
    quote: u8,
    escape: Option<u8>,
    terminator: Option<u8>,
    comment: Option<u8>,
}
impl CsvCfg {
    fn builder(&self, bs: usize) -> arrow_csv::ReaderBuilder {
        let mut f = arrow_csv::reader::Format::default().with_header(self.header).with_delimiter(self.delimiter).with_quote(self.quote).with_truncated_rows(self.truncated);
        if let Some(e) = self.escape {
            f = f.with_escape(e);
        }
        if let Some(x) = self.terminator {
            f = f.with_terminator(x);
        }
        if let Some(x) = self.comment {
            f = f.with_comment(x);
        }
        let mut b = arrow_csv::ReaderBuilder::new(self.schema.clone()).with_format(f).with_batch_size(bs);
        if let Some((s, e)) = self.bounds {
            b = b.with_bounds(s, e);
        }
        if let Some(p) = &self.projection {
            b = b.with_projection(p.clone());
        }
        b
    }
    fn describe(&self) -> serde_json::Value {
        json!({"schema": self.schema.fields().iter().map(|f| format!("{}:{}{}", f.name(), f.data_type(), if f.is_nullable() {"?"} else {""})).collect::<Vec<_>>(),
            "header": self.header, "batch_size": self.bs, "bounds": self.bounds, "projection": self.projection, "truncated_rows": self.truncated,
            "delimiter": (self.delimiter as char).to_string(), "quote": (self.quote as char).to_string(), "escape": self.escape.map(|e| (e as char).to_string()),
            "terminator": self.terminator.map(|e| (e as char).to_string()), "comment": self.comment.map(|e| (e as char).to_string())})
    }
}

/// tokens that carry state across a chunk edge
fn csv_spans(d: &[u8], quote: u8, escape: Option<u8>) -> Vec<Span> {
    let mut v = vec![];
    let mut i = 0;
    let mut qstart: Option<usize> = None;
    while i < d.len() {
        let b = d[i];
        if Some(b) == escape && qstart.is_some() && i + 1 < d.len() {
            v.push(span(i, i + 2, "escape"));
            i += 2;
            continue;
        }
        if b == quote {
            match qstart {
                None => qstart = Some(i),
                Some(s) => {
                    if escape.is_none() && i + 1 < d.len() && d[i + 1] == quote {
                        v.push(span(i, i + 2, "doubled-quote"));
                        i += 2;
                        continue;
                    }
                    v.push(span(s, i + 1, "quoted-field"));
                    qstart = None;
                }
            }
        } else if b == b'\r' && i + 1 < d.len() && d[i + 1] == b'\n' {
            v.push(span(i, i + 2, "crlf"));
            i += 2;
            continue;
        } else if b >= 0xC0 {
            let l = if b >= 0xF0 { 4 } else if b >= 0xE0 { 3 } else { 2 };
            v.push(span(i, (i + l).min(d.len()), "multibyte-char"));
            i += l;
            continue;
        }
        i += 1;
    }
    if let Some(s) = qstart {
        v.push(span(s, d.len(), "quoted-field"));
    }
    // inner tokens first so that the most specific kind is reported
    v.sort_by_key(|s| s.b - s.a);
    v
}

fn csv_run(cfg: &CsvCfg, bs: usize, data: &[u8], cuts: &[usize], mode: Mode, rng: &mut Rng) -> Out {
    let mut o = Out::new();
    let mut dec = cfg.builder(bs).build_decoder();
    let mut finished = false;
    let mut guard = 0usize;
    'outer: for (a, b) in ranges(data.len(), cuts) {
        let mut rest = &data[a..b]; // an empty slice is END OF INPUT for csv-core: empty chunks are never generated
        while !rest.is_empty() {
            guard += 1;
            if guard > 4 * data.len() + 64 {
                o.fail("stuck", "no progress");
                break 'outer;
            }
            let n = match dec.decode(rest) {
                Ok(n) => n,
                Err(e) => {
                    o.fail(aclass(&e), e.to_string());
                    break 'outer;
                }
            };
            rest = &rest[n..];
            if n == 0 {
                // documented: flush only after decode returned 0
                if mode == Mode::Extra && rng.chance(128) {
                    let _ = dec.capacity();
                    if let Ok(k) = dec.decode(rest) {
                        if k != 0 {
                            o.fail("protocol", "second decode on a full decoder consumed bytes");
                            break 'outer;
                        }
                    }
                }
                match dec.flush() {
                    Ok(Some(bt)) => o.push(&bt),
                    Ok(None) => {
                        finished = true; // end bound reached: the reader stops here as well
                        break 'outer;
                    }
                    Err(e) => {
                        o.fail(aclass(&e), e.to_string());
                        break 'outer;
                    }
                }
                if mode == Mode::Extra && rng.chance(128) {
                    match dec.flush() {
                        Ok(None) => {}
                        Ok(Some(_)) => {
                            o.fail("protocol", "second flush returned rows");
                            break 'outer;
                        }
                        Err(e) => {
                            o.fail(aclass(&e), e.to_string());
                            break 'outer;
                        }
                    }
                }
            }
        }
    }
    if o.res.is_ok() && !finished {
        for _ in 0..data.len() + 8 {
            match dec.decode(&[]) {
                Ok(0) => {}
                Ok(_) => {
                    o.fail("protocol", "decode(&[]) consumed bytes");
                    break;
                }
                Err(e) => {
                    o.fail(aclass(&e), e.to_string());
                    break;
                }
            }
            match dec.flush() {
                Ok(Some(bt)) => o.push(&bt),
                Ok(None) => break,
                Err(e) => {
                    o.fail(aclass(&e), e.to_string());
                    break;
                }
            }
        }
    }
    o
}

fn csv_pull(cfg: &CsvCfg, data: &[u8]) -> Out {
    guarded(|| {
        let mut o = Out::new();
        match cfg.builder(cfg.bs).build_buffered(std::io::Cursor::new(data.to_vec())) {
            Err(e) => o.fail(aclass(&e), e.to_string()),
            Ok(r) => {
                for b in r {
                    match b {
                        Ok(b) => o.push(&b),
                        Err(e) => {
                            o.fail(aclass(&e), e.to_string());
                            break;
                        }
                    }
                }
            }
        }
        o
    })
}

fn csv_case(c: &mut Case, cfg: CsvCfg, data: Vec<u8>, valid: bool, source: &str, kind: &str) -> CaseResult {
    let spans = csv_spans(&data, cfg.quote, cfg.escape);
    c.describe(json!({"format": "csv", "source": source, "mutation": kind, "options": cfg.describe(), "text": String::from_utf8_lossy(&data).chars().take(600).collect::<String>(), "bytes": desc_bytes(&data)}));
    c.class(format!("input:{kind}"));
    c.class(format!("batch_size:{}", if cfg.bs > 7 { "1024".to_string() } else { "1-7".into() }));
    for (on, name) in [(cfg.header, "header"), (cfg.bounds.is_some(), "bounds"), (cfg.projection.is_some(), "projection"), (cfg.truncated, "truncated_rows"), (cfg.escape.is_some(), "escape"), (cfg.terminator.is_some(), "custom-terminator"), (cfg.comment.is_some(), "comment")] {
        if on {
            c.class(format!("opt:{name}"));
        }
    }
    let run = |cuts: &[usize], m: Mode, rng: &mut Rng| csv_run(&cfg, cfg.bs, &data, cuts, m, rng);
    let reference = guarded(|| run(&[], Mode::Canon, &mut Rng::new(0)));
    let maxrows = guarded(|| csv_run(&cfg, 1, &data, &[], Mode::Canon, &mut Rng::new(0)));
    if valid {
        let pull = csv_pull(&cfg, &data);
        cmp_exact("csv", "pull", &pull, &reference, "single chunk vs csv Reader", true)?;
        c.eval();
    }
    let ex = Ex { n: data.len(), spans: &spans, allow_empty: false, forbid: &|_| false, extra: true };
    explore(c, "csv", &ex, &reference, Some(&maxrows), Some(cfg.bs), &run)
}

fn csv_opts(t: &mut Tape, schema: SchemaRef, nrows_hint: usize) -> CsvCfg {
    let ncols = schema.fields().len();
    let bs = if t.chance(56) { 1024 } else { 1 + t.below(7) };
    let bounds = if t.chance(40) {
        let s = t.below(nrows_hint + 1);
        Some((s, s + t.below(nrows_hint + 2)))
    } else {
        None
    };
    let projection = if t.chance(40) && ncols > 0 {
        let k = 1 + t.below(ncols);
        let p = t.perm(ncols);
        Some(p[..k].to_vec())
    } else {
        None
    };
    CsvCfg { schema, header: t.chance(100), bs, bounds, projection, truncated: t.chance(48), delimiter: b',', quote: b'"', escape: None, terminator: None, comment: None }
}

fn csv_types(t: &mut Tape) -> LType {
    match t.below(14) {
        0 | 1 => LType::Utf8(Enc::O32),
        2 => LType::Utf8(Enc::View),
        3 => LType::Int { bits: 64, signed: true },
        4 => LType::Int { bits: *t.pick(&[32u8, 8, 16]), signed: t.bool() },
        5 => LType::F64,
        6 => LType::F32,
        7 => LType::Bool,
        8 => LType::Date32,
        9 => LType::Timestamp(t.pick(&[Unit::S, Unit::Ms, Unit::Us, Unit::Ns]).clone(), if t.bool() { Some("UTC".into()) } else { None }),
        10 => LType::Decimal { width: 128, p: 10, s: 2 },
        11 => LType::Time64(Unit::Us),
        12 => LType::Date64,
        _ => LType::Utf8(Enc::O32),
    }
}

/// source (a): arrow-csv Writer output from generated batches
fn sub_csv_writer(c: &mut Case) -> CaseResult {
    let t = &mut c.tape;
    let ncols = 1 + t.below(4);
    let fields: Vec<LField> = (0..ncols)
        .map(|i| {
            let ty = csv_types(t);
            LField { name: format!("c{i}"), ty, nullable: !t.chance(48) }
        })
        .collect();
    let schema = schema_of(&fields, None);
    let rows = *t.pick(&[3usize, 1, 5, 0, 8, 2, 13]);
    let vcfg = ValCfg { nan: false, ..ValCfg::default() };
    let lb = gen_lbatch(t, &fields, rows, &vcfg);
    let batch = realise_batch(t, &schema, &fields, &lb, rows, &Lay::plain());
    let mut cfg = csv_opts(t, schema.clone(), rows);
    cfg.delimiter = *t.pick(&[b',', b';', b'\t', b'|']);
    let crlf = t.chance(100);
    let mut buf = vec![];
    {
        let mut wb = arrow_csv::WriterBuilder::new().with_header(cfg.header).with_delimiter(cfg.delimiter);
        if crlf {
            wb = wb.with_line_terminator(arrow_csv::writer::Terminator::CRLF);
        }
        let mut w = wb.build(&mut buf);
        if w.write(&batch).is_err() {
            c.class("writer-unsupported");
            return Ok(());
        }
    }
    for f in &fields {
        c.class(format!("type:{}", f.ty.family()));
    }
    let spans = csv_spans(&buf, b'"', None);
    let kind = mutate(&mut c.tape, &mut buf, &spans, &|_, _| true);
    csv_case(c, cfg, buf, kind == "valid", "arrow_csv::Writer", kind)
}

/// source (b): hand grammar aimed at quoted fields, doubled quotes, escapes, CR LF, multi-byte characters
fn sub_csv_text(c: &mut Case) -> CaseResult {
    let t = &mut c.tape;
    let ncols = 1 + t.below(4);
    let tys: Vec<DataType> = (0..ncols).map(|_| t.pick(&[DataType::Utf8, DataType::Utf8, DataType::Int64, DataType::Float64, DataType::Boolean, DataType::Utf8View]).clone()).collect();
    let schema: SchemaRef = Arc::new(Schema::new(tys.iter().enumerate().map(|(i, d)| Field::new(format!("c{i}"), d.clone(), true)).collect::<Vec<_>>()));
    let nrows = t.below(7);
    let mut cfg = csv_opts(t, schema, nrows);
    cfg.delimiter = *t.pick(&[b',', b',', b';', b'\t']);
    cfg.quote = *t.pick(&[b'"', b'"', b'"', b'\'']);
    cfg.escape = if t.chance(60) { Some(b'\\') } else { None };
    cfg.terminator = if t.chance(32) { Some(b'|') } else { None };
    cfg.comment = if t.chance(48) { Some(b'#') } else { None };
    let q = cfg.quote as char;
    let d = cfg.delimiter as char;
    let eol_style = t.below(4);
    let mut s = String::new();
    let eol = |t: &mut Tape, cfg: &CsvCfg| -> &'static str {
        if cfg.terminator.is_some() {
            return "|";
        }
        match eol_style {
            0 => "\n",
            1 => "\r\n",
            2 => *t.pick(&["\n", "\r\n", "\r"]),
            _ => "\r\n",
        }
    };
    if cfg.header {
        for i in 0..ncols {
            if i > 0 {
                s.push(d);
            }
            s.push_str(&format!("c{i}"));
        }
        s.push_str(eol(t, &cfg));
    }
    for r in 0..nrows {
        match t.below(24) {
            0 => s.push_str(eol(t, &cfg)), // blank line
            1 if cfg.comment.is_some() => {
                s.push_str("#comment, \"x");
                s.push_str(eol(t, &cfg));
            }
            _ => {}
        }
        let nf = match t.below(20) {
            0 => ncols.saturating_sub(1).max(1), // short row
            1 => ncols + 1,                      // long row
            _ => ncols,
        };
        for i in 0..nf {
            if i > 0 {
                s.push(d);
            }
            let ty = tys.get(i).unwrap_or(&DataType::Utf8);
            let quoted = t.chance(110);
            let mut body = String::new();
            match ty {
                DataType::Int64 => body.push_str(*t.pick(&["1", "-12", "0", "", "9223372036854775807", "42", "x1", "007"])),
                DataType::Float64 => body.push_str(*t.pick(&["1.5", "-2e3", "0", "", "NaN", "1e-7", "inf", "3.", "1,5"])),
                DataType::Boolean => body.push_str(*t.pick(&["true", "false", "", "TRUE", "False", "t"])),
                _ => {
                    let np = t.below(5);
                    for _ in 0..np {
                        let k = t.below(if quoted { 14 } else { 7 });
                        match k {
                            0 => body.push_str("ab"),
                            1 => body.push('é'),
                            2 => body.push('中'),
                            3 => body.push('😀'),
                            4 => body.push(' '),
                            5 => body.push_str("x y"),
                            6 => body.push('z'),
                            // only inside quotes:
                            7 => {
                                if cfg.escape.is_some() {
                                    body.push('\\');
                                    body.push(q);
                                } else {
                                    body.push(q);
                                    body.push(q);
                                }
                            }
                            8 => body.push_str("\r\n"),
                            9 => body.push('\n'),
                            10 => body.push(d),
                            11 => body.push_str(if cfg.escape.is_some() { "\\\\" } else { "\\" }),
                            12 => body.push('\r'),
                            _ => body.push('|'),
                        }
                    }
                }
            }
            if quoted {
                s.push(q);
                s.push_str(&body);
                s.push(q);
            } else {
                s.push_str(&body);
            }
        }
        if r + 1 < nrows || !t.chance(90) {
            s.push_str(eol(t, &cfg));
        }
    }
    let mut data = s.into_bytes();
    let spans = csv_spans(&data, cfg.quote, cfg.escape);
    let kind = mutate(&mut c.tape, &mut data, &spans, &|_, _| true);
    csv_case(c, cfg, data, kind == "valid", "grammar", kind)
}

// =====================================================================================================
// JSON Decoder
#[derive(Clone, Debug)]
struct JsonCfg {
    schema: SchemaRef,
    /// decode bare values of the single field (ReaderBuilder::new_with_field)
    field_mode: bool,
    bs: usize,
    coerce: bool,
    strict: bool,
    flatten: bool,
    ignore_conflicts: bool,
}
impl JsonCfg {
    fn builder(&self, bs: usize) -> arrow_json::ReaderBuilder {
        let b = if self.field_mode { arrow_json::ReaderBuilder::new_with_field(self.schema.field(0).clone()) } else { arrow_json::ReaderBuilder::new(self.schema.clone()) };
        b.with_batch_size(bs).with_coerce_primitive(self.coerce).with_strict_mode(self.strict).with_flatten(self.flatten).with_ignore_type_conflicts(self.ignore_conflicts)
    }
    fn describe(&self) -> serde_json::Value {
        json!({"schema": self.schema.fields().iter().map(|f| format!("{}:{}{}", f.name(), f.data_type(), if f.is_nullable() {"?"} else {""})).collect::<Vec<_>>(),
            "field_mode": self.field_mode, "batch_size": self.bs, "coerce_primitive": self.coerce, "strict_mode": self.strict, "flatten": self.flatten, "ignore_type_conflicts": self.ignore_conflicts})
    }
}

fn json_spans(d: &[u8]) -> Vec<Span> {
    let mut v = vec![];
    let mut i = 0;
    let n = d.len();
    while i < n {
        let b = d[i];
        if b == b'"' {
            let s = i;
            i += 1;
            while i < n && d[i] != b'"' {
                if d[i] == b'\\' {
                    if i + 1 < n && d[i + 1] == b'u' {
                        let mut e = (i + 6).min(n);
                        // surrogate pair \uD8xx\uDCxx is one token
                        if e + 2 <= n && d[e] == b'\\' && d[e + 1] == b'u' && i + 3 < n && (d[i + 2] | 0x20) == b'd' && matches!(d[i + 3] | 0x20, b'8' | b'9' | b'a' | b'b') {
                            e = (e + 6).min(n);
                            v.push(span(i, e, "surrogate-pair-escape"));
                        } else {
                            v.push(span(i, e, "unicode-escape"));
                        }
                        i = e;
                    } else {
                        v.push(span(i, (i + 2).min(n), "escape"));
                        i += 2;
                    }
                    continue;
                }
                if d[i] >= 0xC0 {
                    let l = if d[i] >= 0xF0 { 4 } else if d[i] >= 0xE0 { 3 } else { 2 };
                    v.push(span(i, (i + l).min(n), "multibyte-char"));
                    i += l;
                    continue;
                }
                i += 1;
            }
            i = (i + 1).min(n);
            v.push(span(s, i, "string"));
            continue;
        }
        if b == b'-' || b.is_ascii_digit() {
            let s = i;
            while i < n && matches!(d[i], b'0'..=b'9' | b'-' | b'+' | b'.' | b'e' | b'E') {
                i += 1;
            }
            // the byte after the number terminates it: a cut right before it also carries state
            v.push(span(s, (i + 1).min(n), "number"));
            continue;
        }
        if matches!(b, b't' | b'f' | b'n') {
            let s = i;
            while i < n && d[i].is_ascii_lowercase() {
                i += 1;
            }
            v.push(span(s, i, "literal"));
            continue;
        }
        i += 1;
    }
    v.sort_by_key(|s| s.b - s.a);
    v
}

fn json_run(cfg: &JsonCfg, bs: usize, data: &[u8], cuts: &[usize], mode: Mode, rng: &mut Rng) -> Out {
    let mut o = Out::new();
    let mut dec = match cfg.builder(bs).build_decoder() {
        Ok(d) => d,
        Err(e) => {
            o.fail(format!("build:{}", aclass(&e)), e.to_string());
            return o;
        }
    };
    macro_rules! flush {
        ($l:lifetime) => {
            match dec.flush() {
                Ok(Some(b)) => {
                    o.push(&b);
                    true
                }
                Ok(None) => false,
                Err(e) => {
                    o.fail(aclass(&e), e.to_string());
                    break $l;
                }
            }
        };
    }
    let mut guard = 0usize;
    'outer: {
        for (a, b) in ranges(data.len(), cuts) {
            let mut rest = &data[a..b];
            loop {
                guard += 1;
                if guard > 4 * data.len() + 64 {
                    o.fail("stuck", "no progress");
                    break 'outer;
                }
                // (an empty chunk is passed to decode once: legal, consumes nothing)
                let n = match dec.decode(rest) {
                    Ok(n) => n,
                    Err(e) => {
                        o.fail(aclass(&e), e.to_string());
                        break 'outer;
                    }
                };
                rest = &rest[n..];
                if rest.is_empty() {
                    break;
                }
                // consumed less than offered: the batch is full
                let got = flush!('outer);
                if !got && n == 0 {
                    o.fail("stuck", "decode consumed nothing and flush returned nothing");
                    break 'outer;
                }
            }
            if mode == Mode::Extra && rng.chance(140) && !dec.has_partial_record() {
                let _ = dec.len();
                let _ = flush!('outer);
            }
        }
        let _ = flush!('outer);
    }
    o
}

fn json_pull(cfg: &JsonCfg, data: &[u8]) -> Out {
    guarded(|| {
        let mut o = Out::new();
        match cfg.builder(cfg.bs).build(std::io::Cursor::new(data.to_vec())) {
            Err(e) => o.fail(format!("build:{}", aclass(&e)), e.to_string()),
            Ok(r) => {
                for b in r {
                    match b {
                        Ok(b) => o.push(&b),
                        Err(e) => {
                            o.fail(aclass(&e), e.to_string());
                            break;
                        }
                    }
                }
            }
        }
        o
    })
}

fn json_case(c: &mut Case, cfg: JsonCfg, data: Vec<u8>, valid: bool, source: &str, kind: &str) -> CaseResult {
    let spans = json_spans(&data);
    c.describe(json!({"format": "json", "source": source, "mutation": kind, "options": cfg.describe(), "text": String::from_utf8_lossy(&data).chars().take(600).collect::<String>(), "bytes": desc_bytes(&data)}));
    c.class(format!("input:{kind}"));
    c.class(format!("batch_size:{}", if cfg.bs > 7 { "1024".to_string() } else { "1-7".into() }));
    for (on, name) in [(cfg.field_mode, "field-mode"), (cfg.coerce, "coerce_primitive"), (cfg.strict, "strict_mode"), (cfg.flatten, "flatten"), (cfg.ignore_conflicts, "ignore_type_conflicts")] {
        if on {
            c.class(format!("opt:{name}"));
        }
    }
    let run = |cuts: &[usize], m: Mode, rng: &mut Rng| json_run(&cfg, cfg.bs, &data, cuts, m, rng);
    let reference = guarded(|| run(&[], Mode::Canon, &mut Rng::new(0)));
    let maxrows = guarded(|| json_run(&cfg, 1, &data, &[], Mode::Canon, &mut Rng::new(0)));
    if valid {
        let pull = json_pull(&cfg, &data);
        cmp_exact("json", "pull", &pull, &reference, "single chunk vs json Reader", true)?;
        c.eval();
    }
    let ex = Ex { n: data.len(), spans: &spans, allow_empty: true, forbid: &|_| false, extra: true };
    explore(c, "json", &ex, &reference, Some(&maxrows), Some(cfg.bs), &run)
}

fn json_bs(t: &mut Tape) -> usize {
    if t.chance(56) { 1024 } else { 1 + t.below(7) }
}

/// source (a): arrow-json writers (line delimited and array) from generated batches
fn sub_json_writer(c: &mut Case) -> CaseResult {
    let mut tc = TypeCfg::all();
    tc.depth = 2;
    tc.dict = false;
    tc.ree = false;
    tc.union = false;
    tc.listview = false;
    tc.fixedlist = false;
    tc.interval = false;
    tc.binary = false;
    tc.fixedbinary = false;
    tc.f16 = false;
    tc.dec256 = false;
    tc.neg_scale = false;
    tc.map = false;
    let vcfg = ValCfg { nan: false, ..ValCfg::default() };
    let g = gen_batches(&mut c.tape, &tc, &|_| true, false, 3, &vcfg, false);
    let array_fmt = c.tape.chance(90);
    let explicit_nulls = c.tape.bool();
    let mut buf = vec![];
    let wb = arrow_json::writer::WriterBuilder::new().with_explicit_nulls(explicit_nulls);
    let ok = if array_fmt {
        let mut w = wb.build::<_, arrow_json::writer::JsonArray>(&mut buf);
        g.batches.iter().all(|b| w.write(b).is_ok()) && w.finish().is_ok()
    } else {
        let mut w = wb.build::<_, arrow_json::writer::LineDelimited>(&mut buf);
        g.batches.iter().all(|b| w.write(b).is_ok()) && w.finish().is_ok()
    };
    if !ok {
        c.class("writer-unsupported");
        return Ok(());
    }
    for f in &g.fields {
        c.class(format!("type:{}", f.ty.family()));
    }
    let t = &mut c.tape;
    let cfg = JsonCfg { schema: g.schema.clone(), field_mode: false, bs: json_bs(t), coerce: t.chance(40), strict: t.chance(40), flatten: array_fmt || t.chance(40), ignore_conflicts: t.chance(30) };
    let spans = json_spans(&buf);
    let kind = mutate(&mut c.tape, &mut buf, &spans, &|_, _| true);
    json_case(c, cfg, buf, kind == "valid", if array_fmt { "arrow_json::ArrayWriter" } else { "arrow_json::LineDelimitedWriter" }, kind)
}

#[derive(Clone, Debug)]
enum JT {
    Str,
    Int,
    Float,
    Bool,
    List(Box<JT>),
    Obj(Vec<(&'static str, JT)>),
}
fn jt_arrow(j: &JT) -> DataType {
    match j {
        JT::Str => DataType::Utf8,
        JT::Int => DataType::Int64,
        JT::Float => DataType::Float64,
        JT::Bool => DataType::Boolean,
        JT::List(i) => DataType::List(Arc::new(Field::new("item", jt_arrow(i), true))),
        JT::Obj(fs) => DataType::Struct(Fields::from(fs.iter().map(|(n, t)| Field::new(*n, jt_arrow(t), true)).collect::<Vec<_>>())),
    }
}
fn gen_jt(t: &mut Tape, depth: u32) -> JT {
    match t.below(if depth >= 2 { 5 } else { 8 }) {
        0 | 1 => JT::Str,
        2 => JT::Int,
        3 => JT::Float,
        4 => JT::Bool,
        5 | 6 => JT::List(Box::new(gen_jt(t, depth + 1))),
        _ => {
            let n = 1 + t.below(2);
            JT::Obj((0..n).map(|i| (["x", "y"][i], gen_jt(t, depth + 1))).collect())
        }
    }
}
fn ws(t: &mut Tape, s: &mut String) {
    s.push_str(*t.pick(&["", "", "", " ", "\t", "\r\n", "\n "]));
}
fn json_string(t: &mut Tape, s: &mut String) {
    s.push('"');
    let n = t.below(6);
    const P: [&str; 22] = [
        "a", "é", "\\u00e9", "\\ud83d\\ude00", "😀", "\\n", "\\\"", "\\\\", "\\/", "\\t", " ", "中", "\\u4E2d", "\\uD83D\\uDE00", "xyz", "\\b", "\\r", "{", "1", "\\ud83dx", "\\u12", "\\q",
    ];
    for _ in 0..n {
        let k = if t.chance(236) { 19 } else { 22 };
        s.push_str(*t.pick(&P[..k]));
    }
    s.push('"');
}
fn json_value(t: &mut Tape, j: &JT, s: &mut String, depth: u32) {
    // occasionally null or a value of another type
    match t.below(24) {
        0 | 1 => {
            s.push_str("null");
            return;
        }
        2 => {
            s.push_str(*t.pick(&["true", "1", "\"s\"", "[1]", "{\"x\":1}", "1.5", "false"]));
            return;
        }
        _ => {}
    }
    match j {
        JT::Str => json_string(t, s),
        JT::Int => s.push_str(*t.pick(&["0", "1", "-1", "12", "123456789012345", "-0", "7", "1e2", "9223372036854775807"])),
        JT::Float => s.push_str(*t.pick(&["1.5", "0", "-2.25", "1e5", "1.5E-3", "-0.0", "1E+2", "12", "3.14159"])),
        JT::Bool => s.push_str(if t.bool() { "true" } else { "false" }),
        JT::List(i) => {
            s.push('[');
            let n = t.below(4);
            for k in 0..n {
                if k > 0 {
                    s.push(',');
                }
                ws(t, s);
                json_value(t, i, s, depth + 1);
                ws(t, s);
            }
            s.push(']');
        }
        JT::Obj(fs) => json_object(t, fs, s, depth + 1),
    }
}
fn json_object(t: &mut Tape, fs: &[(&'static str, JT)], s: &mut String, depth: u32) {
    s.push('{');
    let mut first = true;
    let order = t.perm(fs.len());
    for i in order {
        if t.chance(40) {
            continue; // missing key
        }
        if !first {
            s.push(',');
        }
        first = false;
        ws(t, s);
        s.push('"');
        s.push_str(fs[i].0);
        s.push('"');
        ws(t, s);
        s.push(':');
        ws(t, s);
        json_value(t, &fs[i].1, s, depth);
        ws(t, s);
    }
    if t.chance(40) {
        if !first {
            s.push(',');
        }
        s.push_str("\"zz\":");
        let any = gen_jt(t, 2);
        json_value(t, &any, s, depth);
    }
    s.push('}');
}

/// source (b): hand grammar aimed at escapes, \uXXXX (pairs), multi-byte characters, numbers, literals, whitespace
fn sub_json_text(c: &mut Case) -> CaseResult {
    let t = &mut c.tape;
    let field_mode = t.chance(56);
    let (schema, top): (SchemaRef, Vec<(&'static str, JT)>) = if field_mode {
        let j = gen_jt(t, 1);
        (Arc::new(Schema::new(vec![Field::new("v", jt_arrow(&j), true)])), vec![("v", j)])
    } else {
        let n = 1 + t.below(4);
        let fs: Vec<(&'static str, JT)> = (0..n).map(|i| (["a", "b", "c", "d"][i], gen_jt(t, 0))).collect();
        (Arc::new(Schema::new(fs.iter().map(|(n, j)| Field::new(*n, jt_arrow(j), true)).collect::<Vec<_>>())), fs)
    };
    let cfg = JsonCfg { schema, field_mode, bs: json_bs(t), coerce: t.chance(60), strict: t.chance(40), flatten: t.chance(70), ignore_conflicts: t.chance(50) };
    let nrows = t.below(7);
    let mut s = String::new();
    let mut in_arr = false;
    for r in 0..nrows {
        if cfg.flatten && !in_arr && t.chance(70) {
            s.push('[');
            in_arr = true;
        }
        if field_mode {
            json_value(t, &top[0].1, &mut s, 0);
        } else {
            json_object(t, &top, &mut s, 0);
        }
        if in_arr {
            if t.chance(90) || r + 1 == nrows {
                s.push(']');
                in_arr = false;
                s.push_str(*t.pick(&["\n", "", " "]));
            } else {
                s.push(',');
                ws(t, &mut s);
            }
        } else if r + 1 < nrows || !t.chance(60) {
            s.push_str(*t.pick(&["\n", "\n", "\r\n", " ", "\n\n"]));
        }
    }
    let mut data = s.into_bytes();
    let spans = json_spans(&data);
    let kind = mutate(&mut c.tape, &mut data, &spans, &|_, _| true);
    json_case(c, cfg, data, kind == "valid", "grammar", kind)
}

// =====================================================================================================
// Avro: OCF Reader over a chunked BufRead; single-object / Confluent framed Decoder with caller-side carry
fn avro_cfg() -> TypeCfg {
    let mut tc = TypeCfg::all();
    tc.depth = 2;
    tc.dict = false;
    tc.ree = false;
    tc.union = false;
    tc.map = false;
    tc.listview = false;
    tc.fixedlist = false;
    tc.view = false;
    tc.large = false;
    tc.null = false;
    tc.decimal = false;
    tc.interval = false;
    tc.temporal = false;
    tc.f16 = false;
    tc.unsigned = false;
    tc.fixedbinary = false;
    tc.nested_encoded = false;
    tc
}

/// BufRead that hands out the input in the generated chunks (a chunk is never empty: empty fill_buf = EOF)
struct ChunkedBufRead<'a> {
    data: &'a [u8],
    cuts: &'a [usize],
    pos: usize,
}
impl std::io::Read for ChunkedBufRead<'_> {
    fn read(&mut self, buf: &mut [u8]) -> std::io::Result<usize> {
        use std::io::BufRead;
        let b = self.fill_buf()?;
        let n = b.len().min(buf.len());
        buf[..n].copy_from_slice(&b[..n]);
        self.consume(n);
        Ok(n)
    }
}
impl std::io::BufRead for ChunkedBufRead<'_> {
    fn fill_buf(&mut self) -> std::io::Result<&[u8]> {
        let end = self.cuts.iter().copied().find(|c| *c > self.pos).unwrap_or(self.data.len()).min(self.data.len());
        Ok(&self.data[self.pos..end])
    }
    fn consume(&mut self, amt: usize) {
        self.pos += amt;
    }
}

fn avro_class(e: &ArrowError) -> String {
    // arrow-avro wraps its own error kinds into ArrowError; keep two levels of the class
    e.to_string().split(':').next().unwrap_or("").trim().to_string()
}

fn ocf_run(data: &[u8], cuts: &[usize], bs: usize, utf8_view: bool) -> Out {
    let mut o = Out::new();
    // header via the public header reader
    match arrow_avro::reader::read_header_info(ChunkedBufRead { data, cuts, pos: 0 }) {
        Ok(h) => o.info = format!("header_len={} sync={}", h.header_len(), hex(&h.sync())),
        Err(e) => o.info = format!("header error: {}", e.to_string().split(':').next().unwrap_or("")),
    }
    let rd = ChunkedBufRead { data, cuts, pos: 0 };
    match arrow_avro::reader::ReaderBuilder::new().with_batch_size(bs).with_utf8_view(utf8_view).build(rd) {
        Err(e) => o.fail(format!("build:{}", avro_class(&e)), e.to_string()),
        Ok(r) => {
            o.decl = Some(r.schema());
            for b in r {
                match b {
                    Ok(b) => o.push(&b),
                    Err(e) => {
                        o.fail(avro_class(&e), e.to_string());
                        break;
                    }
                }
            }
        }
    }
    o
}

/// layout of an OCF file (best effort): magic, header metadata, sync markers, block headers (two varints), block data
fn ocf_spans(data: &[u8], sync: Option<[u8; 16]>) -> Vec<Span> {
    let mut v = vec![];
    if data.len() >= 4 {
        v.push(span(0, 4, "magic"));
    }
    let Some(sync) = sync else { return v };
    // header ends with the first occurrence of the sync marker
    let find = |from: usize| -> Option<usize> { (from..data.len().saturating_sub(15)).find(|i| data[*i..*i + 16] == sync) };
    let Some(h) = find(4) else { return v };
    v.push(span(4, h, "header-metadata"));
    v.push(span(h, h + 16, "sync-marker"));
    let mut p = h + 16;
    let varint = |p: usize| -> Option<(u64, usize)> {
        let mut val = 0u64;
        for k in 0..10 {
            let b = *data.get(p + k)?;
            val |= ((b & 0x7f) as u64) << (7 * k);
            if b < 0x80 {
                return Some((val, k + 1));
            }
        }
        None
    };
    while p < data.len() {
        let Some((_, l1)) = varint(p) else { break };
        let Some((sz, l2)) = varint(p + l1) else { break };
        v.push(span(p, p + l1 + l2, "block-header-varints"));
        let sz = ((sz >> 1) as i64 ^ -((sz & 1) as i64)).max(0) as usize;
        let d0 = p + l1 + l2;
        let d1 = (d0 + sz).min(data.len());
        if d1 > d0 {
            v.push(span(d0, d1, "block-data"));
        }
        if d1 + 16 <= data.len() {
            v.push(span(d1, d1 + 16, "sync-marker"));
        } else if d1 < data.len() {
            v.push(span(d1, data.len(), "sync-marker"));
        }
        p = d1 + 16;
    }
    v.sort_by_key(|s| s.b - s.a);
    v
}

fn sub_avro_ocf(c: &mut Case) -> CaseResult {
    use arrow_avro::writer::{format::AvroOcfFormat, WriterBuilder};
    let vcfg = ValCfg { nan: true, ..ValCfg::default() };
    let g = gen_batches(&mut c.tape, &avro_cfg(), &no_small_ints, false, 3, &vcfg, false);
    let codec = match c.tape.below(8) {
        5 => Some(arrow_avro::compression::CompressionCodec::Deflate),
        6 => Some(arrow_avro::compression::CompressionCodec::Snappy),
        7 => Some(arrow_avro::compression::CompressionCodec::ZStandard),
        _ => None,
    };
    let mut sync = None;
    let mut buf = vec![];
    let ok = catch(|| -> Result<(), arrow_avro::errors::AvroError> {
        let mut w = WriterBuilder::new(g.schema.as_ref().clone()).with_compression(codec).build::<_, AvroOcfFormat>(&mut buf)?;
        sync = w.sync_marker().copied();
        for b in &g.batches {
            w.write(b)?;
        }
        w.finish()
    });
    if !matches!(ok, Ok(Ok(()))) {
        c.class("writer-unsupported");
        return Ok(());
    }
    for f in &g.fields {
        c.class(format!("type:{}", f.ty.family()));
    }
    c.class(format!("codec:{}", if codec.is_some() { "compressed" } else { "none" }));
    let bs = if c.tape.chance(80) { 1024 } else { 1 + c.tape.below(7) };
    let utf8_view = c.tape.chance(60);
    let spans0 = ocf_spans(&buf, sync);
    // corruption is confined to the magic and the sync markers: a corrupted block header / block data / schema makes
    // the OCF Reader spin forever when a block holds more bytes than its record count consumes (robustness, not
    // chunking; `Reader::read` never advances `block_cursor` once `block_count` is 0) - truncation is unrestricted
    let safe = |p: usize| spans0.iter().any(|s| matches!(s.kind, "magic" | "sync-marker") && p >= s.a && p < s.b);
    let kind = mutate(&mut c.tape, &mut buf, &spans0, &|p, corrupt| !corrupt || safe(p));
    let spans = ocf_spans(&buf, sync);
    c.class(format!("input:{kind}"));
    c.describe(json!({"format": "avro-ocf", "schema": g.schema.fields().iter().map(|f| f.data_type().to_string()).collect::<Vec<_>>(), "batches": g.batches.iter().map(|b| b.num_rows()).collect::<Vec<_>>(),
        "codec": format!("{:?}", codec), "batch_size": bs, "utf8_view": utf8_view, "mutation": kind, "bytes": desc_bytes(&buf)}));
    let data = buf;
    let run = |cuts: &[usize], _m: Mode, _r: &mut Rng| ocf_run(&data, cuts, bs, utf8_view);
    // the pull reader over one contiguous buffer is the reference
    let reference = guarded(|| run(&[], Mode::Canon, &mut Rng::new(0)));
    if kind == "valid" {
        // acceptance / completeness of writer output is a round-trip matter (C17), not a chunking one: counted, not judged
        let want: usize = g.batches.iter().map(|b| b.num_rows()).sum();
        if reference.res.is_err() || reference.rows.len() != want {
            c.class("valid-input-rejected");
        }
    }
    let ex = Ex { n: data.len(), spans: &spans, allow_empty: false, forbid: &|_| false, extra: false };
    explore(c, "avro_ocf", &ex, &reference, None, Some(bs), &run)
}

// ---- framed decoder ---------------------------------------------------------------------------------
const F7_KEY: &str = "F7-avro-decoder-body-split-across-decode-calls";

struct Soe {
    data: Vec<u8>,
    /// (frame start, prefix end, frame end)
    frames: Vec<(usize, usize, usize)>,
    schemas: Vec<(u32, String)>,
}

fn soe_decoder(s: &Soe, bs: usize, utf8_view: bool) -> Result<arrow_avro::reader::Decoder, ArrowError> {
    use arrow_avro::schema::{AvroSchema, Fingerprint, FingerprintAlgorithm, SchemaStore};
    let mut store = SchemaStore::new_with_type(FingerprintAlgorithm::Id);
    for (id, js) in &s.schemas {
        store.set(Fingerprint::Id(*id), AvroSchema::new(js.clone()))?;
    }
    arrow_avro::reader::ReaderBuilder::new().with_writer_schema_store(store).with_batch_size(bs).with_utf8_view(utf8_view).build_decoder()
}

fn soe_run(s: &Soe, data: &[u8], cuts: &[usize], bs: usize, utf8_view: bool, mode: Mode, rng: &mut Rng) -> Out {
    let mut o = Out::new();
    let mut dec = match soe_decoder(s, bs, utf8_view) {
        Ok(d) => d,
        Err(e) => {
            o.fail(format!("build:{}", avro_class(&e)), e.to_string());
            return o;
        }
    };
    let mut carry: Vec<u8> = vec![];
    let mut guard = 0usize;
    'outer: {
        for (a, b) in ranges(data.len(), cuts) {
            carry.extend_from_slice(&data[a..b]);
            loop {
                guard += 1;
                if guard > 4 * data.len() + 64 {
                    o.fail("stuck", "no progress");
                    break 'outer;
                }
                let n = match dec.decode(&carry) {
                    Ok(n) => n,
                    Err(e) => {
                        let e: ArrowError = e.into();
                        o.fail(avro_class(&e), e.to_string());
                        break 'outer;
                    }
                };
                carry.drain(..n);
                if dec.batch_is_full() {
                    match dec.flush() {
                        Ok(Some(bt)) => o.push(&bt),
                        Ok(None) => {}
                        Err(e) => {
                            let e: ArrowError = e.into();
                            o.fail(format!("flush:{}", avro_class(&e)), e.to_string());
                            break 'outer;
                        }
                    }
                    if !carry.is_empty() {
                        continue;
                    }
                }
                if n == 0 || carry.is_empty() {
                    break;
                }
            }
            // flush "once at least one row is complete" is legal between decode calls
            if mode == Mode::Extra && rng.chance(120) {
                match dec.flush() {
                    Ok(Some(bt)) => o.push(&bt),
                    Ok(None) => {}
                    Err(e) => {
                        let e: ArrowError = e.into();
                        o.fail(format!("flush:{}", avro_class(&e)), e.to_string());
                        break 'outer;
                    }
                }
            }
        }
        match dec.flush() {
            Ok(Some(bt)) => o.push(&bt),
            Ok(None) => {}
            Err(e) => {
                let e: ArrowError = e.into();
                o.fail(format!("flush:{}", avro_class(&e)), e.to_string());
            }
        }
    }
    if o.res.is_ok() {
        o.info = format!("unconsumed={}", carry.len());
    }
    o
}

fn soe_build(c: &mut Case, two_schemas: bool) -> Option<Soe> {
    use arrow_avro::schema::{FingerprintStrategy, SCHEMA_METADATA_KEY};
    use arrow_avro::writer::{format::AvroSoeFormat, WriterBuilder};
    let vcfg = ValCfg::default();
    let mut per_schema: Vec<Vec<Vec<u8>>> = vec![];
    let mut schemas = vec![];
    for k in 0..(1 + two_schemas as usize) {
        let g = gen_batches(&mut c.tape, &avro_cfg(), &no_small_ints, false, 2, &vcfg, false);
        let id = [7u32, 300][k];
        let mut enc = WriterBuilder::new(g.schema.as_ref().clone()).with_fingerprint_strategy(FingerprintStrategy::Id(id)).build_encoder::<AvroSoeFormat>().ok()?;
        for b in &g.batches {
            enc.encode(b).ok()?;
        }
        let js = enc.schema().metadata().get(SCHEMA_METADATA_KEY)?.clone();
        let rows = enc.flush();
        per_schema.push(rows.iter().map(|r| r.to_vec()).collect());
        schemas.push((id, js));
        for f in &g.fields {
            c.class(format!("type:{}", f.ty.family()));
        }
    }
    // interleave the frames of the schemas
    let mut data = vec![];
    let mut frames = vec![];
    let mut idx = vec![0usize; per_schema.len()];
    loop {
        let avail: Vec<usize> = (0..per_schema.len()).filter(|k| idx[*k] < per_schema[*k].len()).collect();
        if avail.is_empty() {
            break;
        }
        let k = if c.tape.chance(170) { avail[0] } else { *c.tape.pick(&avail) };
        let f = &per_schema[k][idx[k]];
        idx[k] += 1;
        frames.push((data.len(), data.len() + 5, data.len() + f.len()));
        data.extend_from_slice(f);
    }
    Some(Soe { data, frames, schemas })
}

fn soe_case(c: &mut Case, fam: &'static str, s: Soe, allow_body_cuts: bool) -> CaseResult {
    let bs = if c.tape.chance(80) { 1024 } else { 1 + c.tape.below(5) };
    let utf8_view = c.tape.chance(60);
    let mut spans = vec![];
    for (a, p, e) in &s.frames {
        spans.push(span(*a, *p, "frame-prefix"));
        if e > p {
            spans.push(span(*p, *e, "record-body"));
        }
    }
    let in_body = |p: usize| s.frames.iter().any(|(_, pe, e)| p > *pe && p < *e);
    let mut data = s.data.clone();
    // mutations: without the known-finding shape only positions outside record bodies are touched
    let mspans: Vec<Span> = if allow_body_cuts { spans.clone() } else { spans.iter().filter(|x| x.kind == "frame-prefix").copied().collect() };
    let kind = mutate(&mut c.tape, &mut data, &mspans, &|p, _| allow_body_cuts || !(in_body(p) || s.frames.iter().any(|(_, pe, e)| p >= *pe && p < *e)));
    c.class(format!("input:{kind}"));
    if s.schemas.len() > 1 {
        c.class("two-writer-schemas");
    }
    let excluded = std::cell::Cell::new(false);
    let forbid = |p: usize| {
        if !allow_body_cuts && in_body(p) {
            excluded.set(true);
            true
        } else {
            false
        }
    };
    c.describe(json!({"format": "avro-framed(confluent id)", "frames": s.frames.len(), "schemas": s.schemas.iter().map(|x| x.1.clone()).collect::<Vec<_>>(), "batch_size": bs, "utf8_view": utf8_view, "mutation": kind, "bytes": desc_bytes(&data)}));
    let run = |cuts: &[usize], m: Mode, r: &mut Rng| soe_run(&s, &data, cuts, bs, utf8_view, m, r);
    let reference = guarded(|| run(&[], Mode::Canon, &mut Rng::new(0)));
    if kind == "valid" {
        if reference.res.is_err() || reference.rows.len() != s.frames.len() {
            c.class("valid-input-rejected");
        }
    }
    let maxrows = guarded(|| soe_run(&s, &data, &[], 1, utf8_view, Mode::Canon, &mut Rng::new(0)));
    let ex = Ex { n: data.len(), spans: &spans, allow_empty: true, forbid: &forbid, extra: true };
    let r = explore(c, fam, &ex, &reference, Some(&maxrows), Some(bs), &run);
    if excluded.get() {
        c.exclude(F7_KEY);
    }
    r
}

fn sub_avro_soe(c: &mut Case) -> CaseResult {
    let two = c.tape.chance(90);
    let Some(s) = soe_build(c, two) else {
        c.class("writer-unsupported");
        return Ok(());
    };
    let strict = c.strict;
    soe_case(c, "avro_soe", s, strict)
}

/// dedicated reproduction of F7: two-field records, every split point including those strictly inside a record body
fn sub_avro_soe_f7(c: &mut Case) -> CaseResult {
    use arrow_array::{ArrayRef, Int64Array, StringArray};
    use arrow_avro::schema::{FingerprintStrategy, SCHEMA_METADATA_KEY};
    use arrow_avro::writer::{format::AvroSoeFormat, WriterBuilder};
    let n = 2 + c.tape.below(3);
    let schema = Schema::new(vec![Field::new("a", DataType::Int64, false), Field::new("s", DataType::Utf8, false)]);
    let a: Vec<i64> = (0..n).map(|i| 1 + i as i64 + c.tape.below(100) as i64 * 1000).collect();
    let sv: Vec<String> = (0..n).map(|i| "xyz"[..1 + (i + c.tape.below(3)) % 3].to_string()).collect();
    let batch = RecordBatch::try_new(Arc::new(schema.clone()), vec![Arc::new(Int64Array::from(a)) as ArrayRef, Arc::new(StringArray::from(sv)) as ArrayRef]).unwrap();
    let mut enc = WriterBuilder::new(schema).with_fingerprint_strategy(FingerprintStrategy::Id(7)).build_encoder::<AvroSoeFormat>().map_err(|e| Fail::new("avro_soe:writer", e.to_string()))?;
    enc.encode(&batch).map_err(|e| Fail::new("avro_soe:writer", e.to_string()))?;
    let js = enc.schema().metadata().get(SCHEMA_METADATA_KEY).cloned().unwrap_or_default();
    let rows = enc.flush();
    let mut data = vec![];
    let mut frames = vec![];
    for r in rows.iter() {
        frames.push((data.len(), data.len() + 5, data.len() + r.len()));
        data.extend_from_slice(&r);
    }
    let strict = c.strict;
    soe_case(c, "avro_soe_f7", Soe { data, frames, schemas: vec![(7, js)] }, strict)
}

// =====================================================================================================
// Parquet metadata push decoder: "chunking" = how and when the requested byte ranges are supplied
use parquet::file::metadata::{PageIndexPolicy, ParquetMetaDataPushDecoder, ParquetMetaDataReader};

fn pclass(e: &parquet::errors::ParquetError) -> String {
    e.to_string().split(':').next().unwrap_or("").to_string()
}

#[derive(Clone, Copy, Debug, PartialEq)]
enum Delivery {
    Exact,
    Superset,
    AllUpFront,
    TailPrefetch,
    Noisy,
}

/// outcome: Debug rendering of the metadata or an error class
fn pq_run(file: &bytes::Bytes, policy: PageIndexPolicy, d: Delivery, rng: &mut Rng) -> Result<String, (String, String)> {
    use parquet::DecodeResult;
    let n = file.len() as u64;
    let mut dec = ParquetMetaDataPushDecoder::try_new(n).map_err(|e| (format!("new:{}", pclass(&e)), e.to_string()))?.with_page_index_policy(policy);
    let push = |dec: &mut ParquetMetaDataPushDecoder, r: std::ops::Range<u64>| -> Result<(), (String, String)> {
        dec.push_range(r.clone(), file.slice(r.start as usize..r.end as usize)).map_err(|e| (format!("push:{}", pclass(&e)), e.to_string()))
    };
    match d {
        Delivery::AllUpFront => push(&mut dec, 0..n)?,
        Delivery::TailPrefetch => {
            let k = [8u64, 9, 64, 300, 2000][rng.below(5)].min(n);
            push(&mut dec, n - k..n)?;
        }
        _ => {}
    }
    for _ in 0..12 {
        match dec.try_decode() {
            Ok(DecodeResult::Data(m)) => return Ok(format!("{:?}", m)),
            Ok(DecodeResult::Finished) => return Err(("finished-without-data".into(), String::new())),
            Err(e) => return Err((pclass(&e), e.to_string())),
            Ok(DecodeResult::NeedsData(rs)) => {
                let mut rs = rs;
                if rs.iter().any(|r| r.end > n || r.start > r.end) {
                    return Err(("requested-range-outside-file".into(), format!("{:?} of {}", rs, n)));
                }
                if d == Delivery::Noisy {
                    // unrelated and partial ranges first (never sufficient on their own), duplicates, reversed order
                    for r in rs.clone() {
                        let mid = r.start + (r.end - r.start) / 2;
                        if mid > r.start && rng.chance(160) {
                            push(&mut dec, r.start..mid)?;
                            push(&mut dec, mid..r.end)?;
                        }
                    }
                    if n > 16 && rng.chance(128) {
                        push(&mut dec, 0..4)?;
                    }
                    rs.reverse();
                    if rng.chance(128) {
                        let dup = rs.clone();
                        rs.extend(dup);
                    }
                }
                for r in rs {
                    let r2 = match d {
                        Delivery::Superset | Delivery::Noisy => r.start.saturating_sub(rng.below(40) as u64)..(r.end + rng.below(40) as u64).min(n),
                        _ => r,
                    };
                    push(&mut dec, r2)?;
                }
            }
        }
    }
    Err(("too-many-rounds".into(), String::new()))
}

fn sub_parquet_meta(c: &mut Case) -> CaseResult {
    use parquet::arrow::ArrowWriter;
    use parquet::file::properties::{EnabledStatistics, WriterProperties};
    let mut tc = TypeCfg::all();
    tc.depth = 2;
    tc.union = false;
    tc.ree = false;
    tc.listview = false;
    tc.interval = false;
    tc.f16 = false;
    tc.dict = false;
    tc.map = false;
    let vcfg = ValCfg { nan: false, ..ValCfg::default() };
    let g = gen_batches(&mut c.tape, &tc, &|_| true, false, 3, &vcfg, false);
    let t = &mut c.tape;
    let props = WriterProperties::builder()
        .set_max_row_group_row_count(Some(*t.pick(&[1024usize, 3, 5])))
        .set_data_page_row_count_limit(*t.pick(&[20000usize, 2]))
        .set_write_batch_size(*t.pick(&[1024usize, 1, 2]))
        .set_statistics_enabled(*t.pick(&[EnabledStatistics::Page, EnabledStatistics::Chunk, EnabledStatistics::None]))
        .set_offset_index_disabled(t.chance(60))
        .set_dictionary_enabled(t.bool())
        .build();
    let mut buf = vec![];
    let ok = catch(|| -> Result<(), parquet::errors::ParquetError> {
        let mut w = ArrowWriter::try_new(&mut buf, g.schema.clone(), Some(props))?;
        for b in &g.batches {
            w.write(b)?;
        }
        w.close()?;
        Ok(())
    });
    if !matches!(ok, Ok(Ok(()))) {
        // (the ArrowWriter panics on FixedSizeBinary(0) columns: "chunk size must be non-zero" - not this property)
        c.class("writer-unsupported");
        return Ok(());
    }
    let policy = *c.tape.pick(&[PageIndexPolicy::Optional, PageIndexPolicy::Skip, PageIndexPolicy::Required]);
    // mutations aimed at the tail (footer length, magic, thrift metadata, page index)
    let n = buf.len();
    let kind = match c.tape.below(8) {
        5 => {
            let k = 1 + c.tape.below(40.min(n - 1));
            buf.truncate(n - k);
            "truncated"
        }
        6 | 7 => {
            let back = if c.tape.bool() { c.tape.below(12.min(n)) } else { c.tape.below(600.min(n)) };
            let x = *c.tape.pick(&[1u8, 0x80, 0xff, 0x10]);
            buf[n - 1 - back] ^= x;
            "corrupted"
        }
        _ => "valid",
    };
    c.class(format!("input:{kind}"));
    c.class(format!("policy:{:?}", policy));
    let file = bytes::Bytes::from(buf);
    c.describe(json!({"format": "parquet-footer", "schema": g.schema.fields().iter().map(|f| f.data_type().to_string()).collect::<Vec<_>>(), "batches": g.batches.iter().map(|b| b.num_rows()).collect::<Vec<_>>(),
        "policy": format!("{:?}", policy), "mutation": kind, "file_len": file.len(), "tail": hex(&file[file.len().saturating_sub(64)..])}));
    let reference = match catch(|| pq_run(&file, policy, Delivery::Exact, &mut Rng::new(0))) {
        Ok(r) => r,
        Err(p) => Err(("panic".into(), p.msg)),
    };
    let cls = |r: &Result<String, (String, String)>| match r {
        Ok(_) => "ok".to_string(),
        Err((c, _)) => c.clone(),
    };
    c.class(format!("outcome:{}", if reference.is_ok() { "ok" } else { "err" }));
    if kind == "valid" {
        let pull = match catch(|| ParquetMetaDataReader::new().with_page_index_policy(policy).parse_and_finish(&file)) {
            Ok(Ok(m)) => Ok(format!("{:?}", m)),
            Ok(Err(e)) => Err((pclass(&e), e.to_string())),
            Err(p) => Err(("panic".into(), p.msg)),
        };
        ensure!(cls(&pull) == cls(&reference), "parquet_meta:pull:outcome", "ParquetMetaDataReader {:?} vs push decoder {:?}", pull.as_ref().map(|_| "metadata"), reference.as_ref().map(|_| "metadata"));
        if let (Ok(a), Ok(b)) = (&pull, &reference) {
            ensure!(a == b, "parquet_meta:pull:metadata", "metadata from ParquetMetaDataReader differs from the push decoder's");
        }
        c.eval();
    }
    let seed = c.tape.u64();
    let rounds = if c.tier == Tier::Thorough { 24 } else { 6 };
    let mut i = 0u64;
    for d in [Delivery::Exact, Delivery::Superset, Delivery::AllUpFront, Delivery::TailPrefetch, Delivery::Noisy] {
        for _ in 0..rounds {
            i += 1;
            let mut rng = Rng::new(seed.wrapping_add(i) * (seed != 0) as u64);
            let o = match catch(|| pq_run(&file, policy, d, &mut rng)) {
                Ok(r) => r,
                Err(p) => Err(("panic".into(), p.msg)),
            };
            ensure!(cls(&o) == cls(&reference), "parquet_meta:delivery:outcome", "delivery {:?}: {:?} vs exact delivery {:?}", d, o.as_ref().map(|_| "metadata"), reference.as_ref().map(|_| "metadata"));
            if let (Ok(a), Ok(b)) = (&o, &reference) {
                ensure!(a == b, "parquet_meta:delivery:metadata", "delivery {:?}: decoded metadata differs from exact delivery", d);
            }
            c.eval();
            if d == Delivery::Exact || d == Delivery::AllUpFront {
                break; // deterministic
            }
        }
        c.class(format!("delivery:{:?}", d));
    }
    c.nontrivial();
    Ok(())
}

// =====================================================================================================
// Flight: message delivery / poll schedule with a manual executor
use arrow_flight::decode::{DecodedPayload, FlightDataDecoder, FlightRecordBatchStream};
use arrow_flight::FlightData;
use futures::task::noop_waker;
use futures::Stream;
use std::pin::Pin;
use std::task::{Context, Poll};

struct Sched {
    items: std::collections::VecDeque<FlightData>,
    /// number of Pending results before each item and before the end
    pend: Vec<usize>,
    i: usize,
    left: usize,
    wake: bool,
}
impl Sched {
    fn new(items: Vec<FlightData>, pend: Vec<usize>, wake: bool) -> Self {
        let left = pend.first().copied().unwrap_or(0);
        Sched { items: items.into(), pend, i: 0, left, wake }
    }
}
impl Stream for Sched {
    type Item = Result<FlightData, arrow_flight::error::FlightError>;
    fn poll_next(mut self: Pin<&mut Self>, cx: &mut Context<'_>) -> Poll<Option<Self::Item>> {
        if self.left > 0 {
            self.left -= 1;
            if self.wake {
                cx.waker().wake_by_ref();
            }
            return Poll::Pending;
        }
        self.i += 1;
        self.left = self.pend.get(self.i).copied().unwrap_or(0);
        Poll::Ready(self.items.pop_front().map(Ok))
    }
}

/// re-home a body so that its address is / is not a multiple of 64 (the decoder takes different paths)
fn rehome(b: &bytes::Bytes, want_aligned: bool) -> bytes::Bytes {
    let mut v = vec![0u8; b.len() + 128];
    let base = v.as_ptr() as usize;
    let mut off = (64 - base % 64) % 64;
    if !want_aligned {
        off += 1 + (b.len() % 7);
    }
    v[off..off + b.len()].copy_from_slice(b);
    bytes::Bytes::from(v).slice(off..off + b.len())
}

fn flight_events(msgs: &[FlightData], pend: &[usize], wake: bool, batch_stream: bool, align: &[bool]) -> Vec<String> {
    let items: Vec<FlightData> = msgs
        .iter()
        .enumerate()
        .map(|(i, m)| {
            let mut m = m.clone();
            m.data_body = rehome(&m.data_body, align.get(i).copied().unwrap_or(false));
            m
        })
        .collect();
    let total_pending: usize = pend.iter().sum();
    let max_polls = total_pending + 2 * msgs.len() + 8;
    let waker = noop_waker();
    let mut cx = Context::from_waker(&waker);
    let mut ev = vec![];
    let render = |b: &RecordBatch| {
        let mut o = Out::new();
        o.push(b);
        format!("batch {:?} {:?}", b.schema(), o.rows)
    };
    if batch_stream {
        let mut s = FlightRecordBatchStream::new_from_flight_data(Sched::new(items, pend.to_vec(), wake));
        for _ in 0..max_polls {
            match Pin::new(&mut s).poll_next(&mut cx) {
                Poll::Pending => {}
                Poll::Ready(None) => {
                    ev.push(format!("end schema={:?}", s.schema()));
                    return ev;
                }
                Poll::Ready(Some(Ok(b))) => ev.push(render(&b)),
                Poll::Ready(Some(Err(e))) => ev.push(if std::env::var("C14_DEBUG").is_ok() { format!("err {e}") } else { format!("err {}", e.to_string().split(':').next().unwrap_or("")) }),
            }
        }
    } else {
        let mut s = FlightDataDecoder::new(Sched::new(items, pend.to_vec(), wake));
        for _ in 0..max_polls {
            match Pin::new(&mut s).poll_next(&mut cx) {
                Poll::Pending => {}
                Poll::Ready(None) => {
                    ev.push(format!("end schema={:?}", s.schema()));
                    return ev;
                }
                Poll::Ready(Some(Ok(d))) => ev.push(match &d.payload {
                    DecodedPayload::None => format!("none app={}", hex(&d.app_metadata())),
                    DecodedPayload::Schema(s) => format!("schema {:?}", s),
                    DecodedPayload::RecordBatch(b) => render(b),
                }),
                Poll::Ready(Some(Err(e))) => ev.push(format!("err {}", e.to_string().split(':').next().unwrap_or(""))),
            }
        }
    }
    ev.push("no-end-within-poll-budget".into());
    ev
}

/// schema, dictionary and record batch messages the way a Flight producer frames them (one dictionary tracker shared
/// by the schema message and the batches, so dictionary columns are supported)
fn flight_encode(schema: &Schema, batches: &[RecordBatch]) -> Result<Vec<FlightData>, ArrowError> {
    use arrow_ipc::writer::{DictionaryTracker, IpcDataGenerator, IpcWriteContext, IpcWriteOptions};
    let options = IpcWriteOptions::default();
    let data_gen = IpcDataGenerator::default();
    let mut tracker = DictionaryTracker::new(false);
    let mut ctx = IpcWriteContext::default();
    let mut out: Vec<FlightData> = vec![data_gen.schema_to_bytes_with_dictionary_tracker(schema, &mut tracker, &options).into()];
    for b in batches {
        let (dicts, batch) = data_gen.encode(b, &mut tracker, &options, &mut ctx)?;
        out.extend(dicts.into_iter().map(Into::into));
        out.push(batch.into());
    }
    Ok(out)
}

fn sub_flight(c: &mut Case) -> CaseResult {
    let mut tc = TypeCfg::all();
    tc.depth = 2;
    tc.ree = false;
    tc.listview = false;
    let g = gen_batches(&mut c.tape, &tc, &|_| true, true, 3, &ValCfg::default(), true);
    let mut msgs = match catch(|| flight_encode(g.schema.as_ref(), &g.batches)) {
        Ok(Ok(m)) => m,
        other => {
            if std::env::var("C14_DEBUG").is_ok() {
                eprintln!("flight writer: {:?} for {:?}", other.map(|r| r.map(|m| m.len()).map_err(|e| e.to_string())).map_err(|p| p.msg), g.schema.fields().iter().map(|f| f.data_type().to_string()).collect::<Vec<_>>());
            }
            c.class("writer-unsupported");
            return Ok(());
        }
    };
    let has_dict = msgs.len() > 1 + g.batches.len();
    if has_dict {
        c.class("dictionary-messages");
    }
    let t = &mut c.tape;
    let nm = msgs.len();
    let kind = match t.below(14) {
        7 => {
            msgs.remove(0);
            "schema-dropped"
        }
        8 => {
            let s = msgs[0].clone();
            msgs.insert(t.below(nm) + 1, s);
            "schema-repeated"
        }
        9 if nm >= 3 => {
            let i = 1 + t.below(nm - 2);
            msgs.swap(i, i + 1);
            "swapped"
        }
        10 => {
            let i = t.below(nm);
            let mut h = msgs[i].data_header.to_vec();
            if !h.is_empty() {
                let p = t.below(h.len());
                h[p] ^= *t.pick(&[1u8, 0x80, 0xff]);
            }
            msgs[i].data_header = h.into();
            "header-corrupted"
        }
        11 => {
            let i = t.below(nm);
            let mut h = msgs[i].data_body.to_vec();
            if !h.is_empty() {
                let p = t.below(h.len());
                h[p] ^= *t.pick(&[1u8, 0x80, 0xff]);
                msgs[i].data_body = h.into();
                "body-corrupted"
            } else {
                "valid"
            }
        }
        12 => {
            let i = t.below(nm);
            let l = msgs[i].data_body.len();
            msgs[i].data_body = msgs[i].data_body.slice(..t.below(l + 1));
            "body-truncated"
        }
        13 => {
            msgs.insert(t.below(nm + 1), FlightData { app_metadata: bytes::Bytes::from_static(b"hello"), ..Default::default() });
            "metadata-only-message"
        }
        _ => "valid",
    };
    c.class(format!("input:{kind}"));
    for f in &g.fields {
        c.class(format!("type:{}", f.ty.family()));
    }
    c.describe(json!({"format": "flight", "schema": g.schema.fields().iter().map(|f| f.data_type().to_string()).collect::<Vec<_>>(), "batches": g.batches.iter().map(|b| b.num_rows()).collect::<Vec<_>>(), "messages": msgs.len(), "mutation": kind}));
    let n = msgs.len();
    let none = vec![0usize; n + 1];
    let unaligned = vec![false; n];
    for batch_stream in [false, true] {
        let reference = catch(|| flight_events(&msgs, &none, false, batch_stream, &unaligned)).unwrap_or_else(|p| vec![format!("panic {}", p.msg)]);
        if kind == "valid" && batch_stream {
            // one-shot conversion
            let ok = !reference.iter().any(|e| e.starts_with("err") || e.starts_with("panic"));
            if !ok {
                // acceptance of writer output is a round-trip matter (C04), not a chunking one: counted, not judged
                c.class("valid-input-rejected");
                if std::env::var("C14_DEBUG").is_ok() {
                    eprintln!("flight rejects encoder output: {:?}", reference.iter().find(|e| e.starts_with("err") || e.starts_with("panic")));
                }
            }
            if ok && !has_dict {
                if let Ok(Ok(bs)) = catch(|| arrow_flight::utils::flight_data_to_batches(&msgs)) {
                    let want: Vec<String> = bs
                        .iter()
                        .map(|b| {
                            let mut o = Out::new();
                            o.push(b);
                            format!("batch {:?} {:?}", b.schema(), o.rows)
                        })
                        .collect();
                    let got: Vec<String> = reference.iter().filter(|e| e.starts_with("batch")).cloned().collect();
                    ensure!(got == want, "flight:pull:rows", "FlightRecordBatchStream batches differ from flight_data_to_batches");
                    c.eval();
                }
            }
        }
        let rounds = if c.tier == Tier::Thorough { 40 } else { 10 };
        for r in 0..rounds {
            let t = &mut c.tape;
            let pend: Vec<usize> = match r {
                0 => vec![1; n + 1],
                1 => (0..=n).map(|i| i % 3).collect(),
                _ => (0..=n).map(|_| t.len(2, 6)).collect(),
            };
            let align: Vec<bool> = (0..n).map(|_| t.bool()).collect();
            let wake = t.bool();
            let o = catch(|| flight_events(&msgs, &pend, wake, batch_stream, &align)).unwrap_or_else(|p| vec![format!("panic {}", p.msg)]);
            if o != reference {
                let i = (0..o.len().min(reference.len())).find(|i| o[*i] != reference[*i]).unwrap_or(o.len().min(reference.len()));
                let sh = |v: &Vec<String>| v.get(i).map(|s| s.chars().take(160).collect::<String>()).unwrap_or_else(|| "<missing>".into());
                return Err(Fail::new(
                    if batch_stream { "flight:stream:events" } else { "flight:decoder:events" },
                    format!("event {i} is {} with pending schedule {:?} (wake={wake}, aligned bodies {:?}) but {} when every poll is ready", sh(&o), pend, align, sh(&reference)),
                ));
            }
            c.eval();
        }
    }
    if n >= 2 {
        c.nontrivial();
    }
    Ok(())
}


fn main() {
    Check::new(
        "C14",
        "exploration",
        "case = one input byte sequence (writer output from generated batches, hand-grammar CSV/JSON text, or a truncated / one-byte-corrupted variant) + decoder options, run under every single split point (inputs <= 4 KiB), one byte at a time, fixed chunk sizes, random multi-splits biased to token edges, all partitions of a short window, empty chunks where legal, and drivers with extra legal control calls; non-trivial = at least one schedule cuts strictly inside a state-carrying token (IPC prefix/flatbuffer/body; CSV quoted field, doubled quote, escape, CRLF, multi-byte char; JSON string, escape, \\uXXXX pair, number, literal; Avro magic/fingerprint/varint/sync/block; Parquet range delivery other than exact; Flight Pending between dependent messages). Distinct = distinct consumed tape.",
    )
    .assume("drivers only generate call sequences the decoder documentation permits (CSV: flush only after decode returned 0, empty slice only as end of input; JSON: flush only when !has_partial_record(); Avro: caller carries unconsumed bytes; Parquet metadata: a requested range is eventually supplied by one covering push)")
    .assume("error messages may mention positions; only the error class (text before the first ':') is compared under the canonical driver, only Ok/Err under drivers with extra flushes")
    .assume("pull-reader equality is demanded for unmutated writer/grammar inputs only")
    .sub(Sub::new("ipc", 400, 2000, sub_ipc).tape(256, 6000).require(&["input:valid", "input:truncated", "input:corrupted", "no-eos", "split:prefix", "split:flatbuffer", "split:body", "outcome:ok", "outcome:err"]))
    .sub(Sub::new("ipc_f4", 24, 100, sub_ipc_f4).tape(16, 64))
    .sub(Sub::new("ipc_f8", 24, 100, sub_ipc_f8).tape(16, 256))
    .sub(Sub::new("csv_writer", 300, 1500, sub_csv_writer).tape(256, 4000).require(&["input:valid", "input:truncated", "input:corrupted", "split:quoted-field", "split:multibyte-char", "outcome:ok", "outcome:err", "batch_size:1-7", "opt:header"]))
    .sub(Sub::new("csv_text", 1000, 5000, sub_csv_text).tape(128, 2000).require(&["input:valid", "split:quoted-field", "split:doubled-quote", "split:escape", "split:crlf", "split:multibyte-char", "outcome:ok", "outcome:err", "opt:escape", "opt:custom-terminator", "opt:comment", "opt:bounds", "opt:projection", "opt:truncated_rows"]))
    .sub(Sub::new("json_writer", 300, 1500, sub_json_writer).tape(256, 6000).require(&["input:valid", "input:truncated", "input:corrupted", "split:string", "split:number", "split:literal", "outcome:ok", "outcome:err"]))
    .sub(Sub::new("json_text", 1000, 5000, sub_json_text).tape(128, 3000).require(&["input:valid", "split:string", "split:escape", "split:unicode-escape", "split:surrogate-pair-escape", "split:multibyte-char", "split:number", "split:literal", "split:empty-chunk", "split:extra-control-calls", "outcome:ok", "outcome:err", "opt:flatten", "opt:field-mode"]))
    .sub(Sub::new("avro_ocf", 200, 1000, sub_avro_ocf).tape(256, 6000).require(&["input:valid", "split:magic", "split:header-metadata", "split:sync-marker", "split:block-header-varints", "split:block-data", "codec:compressed", "outcome:ok"]))
    .sub(Sub::new("avro_soe", 300, 1500, sub_avro_soe).tape(256, 6000).require(&["input:valid", "split:frame-prefix", "two-writer-schemas", "outcome:ok", "outcome:err"]))
    .sub(Sub::new("avro_soe_f7", 24, 100, sub_avro_soe_f7).tape(16, 64))
    .sub(Sub::new("parquet_meta", 200, 2000, sub_parquet_meta).tape(256, 6000).require(&["input:valid", "input:truncated", "input:corrupted", "outcome:ok", "outcome:err", "delivery:Noisy"]))
    .sub(Sub::new("flight", 400, 8000, sub_flight).tape(256, 6000).require(&["input:valid", "dictionary-messages"]))
    // worker-subprocess isolation: an abort of the code under test (e.g. an absurd allocation after mis-framed input) is
    // attributed to the case in flight and reported as a violation instead of killing the check
    .run_isolated()
}
