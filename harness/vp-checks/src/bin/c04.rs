//! C04 — Arrow IPC file, stream, StreamEncoder and Flight encoding round-trip every batch.
//!
//! Sub-checks
//!  * `type_grid`          enumerated: every kind of the committed IPC type grid x metadata version x writer is accepted and
//!                         round-trips; types outside the grid are rejected cleanly.
//!  * `ipc_file`           random schema / batches / options -> FileWriter -> FileReader, FileReaderBuilder (projection),
//!                         FileDecoder by blocks (projection, require_alignment on aligned input), set_index.
//!  * `ipc_stream`         same through StreamWriter / StreamEncoder -> StreamReader (buffered / unbuffered, projection),
//!                         StreamDecoder (whole / chunked, require_alignment on aligned input).
//!  * `dictionary_history` hand-built dictionary arrays whose dictionary evolves per batch (same Arc, equal values in a new
//!                         allocation, extended, replaced, shrunk); documented accept/reject table of DictionaryTracker for
//!                         FileWriter / StreamWriter / StreamEncoder / Flight(Resend) and decoded values of every accepted batch.
//!  * `flight`             FlightDataEncoderBuilder (max_flight_data_size, Hydrate / Resend, with_schema, IPC options) ->
//!                         FlightRecordBatchStream / FlightDataDecoder / flight_data_to_batches; row concatenation oracle.
use arrow_array::types::*;
use arrow_array::*;
use arrow_buffer::{ArrowNativeType, Buffer, MutableBuffer, OffsetBuffer};
use arrow_flight::FlightData;
use arrow_flight::decode::{DecodedPayload, FlightDataDecoder, FlightRecordBatchStream};
use arrow_flight::encode::{DictionaryHandling as FlightDict, FlightDataEncoderBuilder};
use arrow_flight::utils::flight_data_to_batches;
use arrow_ipc::convert::try_fb_to_schema;
use arrow_ipc::reader::{FileDecoder, FileReader, FileReaderBuilder, StreamDecoder, StreamReader, read_footer_length};
use arrow_ipc::writer::{DictionaryHandling as IpcDict, FileWriter, IpcWriteOptions, StreamEncoder, StreamWriter};
use arrow_ipc::{CompressionType, MetadataVersion, root_as_footer};
use arrow_schema::{ArrowError, DataType, Field, Fields, Schema, SchemaRef, UnionFields};
use futures::{StreamExt, TryStreamExt};
use serde_json::json;
use std::collections::HashMap;
use std::io::Cursor;
use std::sync::Arc;
use vp_engine::batch::*;
use vp_engine::extract::extract;
use vp_engine::model::*;
use vp_engine::r#gen::*;
use vp_engine::realise::*;
use vp_engine::runner::*;
use vp_engine::tape::Tape;
use vp_engine::validate::check_valid;
use vp_engine::{ensure, fail};

// ------------------------------------------------------------------------------------------------
// committed support grid (data, not a probe): determined once on the unchanged tree, reviewed against the docs
const GRID_JSON: &str = include_str!("../../../grids/c04_ipc_types.json");

struct Grid {
    ipc: Vec<String>,
    flight_hydrate_containers: Vec<String>,
    flight_hydrate_top_only: Vec<String>,
}
fn grid() -> &'static Grid {
    static G: std::sync::OnceLock<Grid> = std::sync::OnceLock::new();
    G.get_or_init(|| {
        let v: serde_json::Value = serde_json::from_str(GRID_JSON).expect("grid json");
        let list = |k: &str| -> Vec<String> { v[k].as_array().expect(k).iter().map(|x| x.as_str().unwrap().to_string()).collect() };
        Grid {
            ipc: list("ipc_kinds"),
            flight_hydrate_containers: list("flight_hydrate_dictionary_containers"),
            flight_hydrate_top_only: list("flight_hydrate_dictionary_containers_top_level_only"),
        }
    })
}

/// kind name of one type node (the vocabulary of the grid file)
fn kind(t: &LType) -> &'static str {
    use LType::*;
    match t {
        Null => "Null",
        Bool => "Boolean",
        Int { bits: 8, signed: true } => "Int8",
        Int { bits: 16, signed: true } => "Int16",
        Int { bits: 32, signed: true } => "Int32",
        Int { bits: 64, signed: true } => "Int64",
        Int { bits: 8, signed: false } => "UInt8",
        Int { bits: 16, signed: false } => "UInt16",
        Int { bits: 32, signed: false } => "UInt32",
        Int { .. } => "UInt64",
        F16 => "Float16",
        F32 => "Float32",
        F64 => "Float64",
        Decimal { width: 32, .. } => "Decimal32",
        Decimal { width: 64, .. } => "Decimal64",
        Decimal { width: 128, .. } => "Decimal128",
        Decimal { .. } => "Decimal256",
        Date32 => "Date32",
        Date64 => "Date64",
        Time32(_) => "Time32",
        Time64(_) => "Time64",
        Timestamp(_, None) => "Timestamp",
        Timestamp(_, Some(_)) => "TimestampTz",
        Duration(_) => "Duration",
        IntervalYM => "IntervalYearMonth",
        IntervalDT => "IntervalDayTime",
        IntervalMDN => "IntervalMonthDayNano",
        Utf8(Enc::O32) => "Utf8",
        Utf8(Enc::O64) => "LargeUtf8",
        Utf8(Enc::View) => "Utf8View",
        Binary(Enc::O32) => "Binary",
        Binary(Enc::O64) => "LargeBinary",
        Binary(Enc::View) => "BinaryView",
        FixedBinary(_) => "FixedSizeBinary",
        List(_, ListEnc::O32) => "List",
        List(_, ListEnc::O64) => "LargeList",
        List(_, ListEnc::V32) => "ListView",
        List(_, ListEnc::V64) => "LargeListView",
        FixedList(..) => "FixedSizeList",
        Struct(_) => "Struct",
        Map { .. } => "Map",
        Union { dense: false, .. } => "SparseUnion",
        Union { dense: true, .. } => "DenseUnion",
        Dict { .. } => "Dictionary",
        Ree { .. } => "RunEndEncoded",
    }
}

fn children(t: &LType) -> Vec<&LType> {
    use LType::*;
    match t {
        List(c, _) | FixedList(c, _) => vec![&c.ty],
        Struct(fs) => fs.iter().map(|f| &f.ty).collect(),
        Map { key, val, .. } => vec![&key.ty, &val.ty],
        Union { fields, .. } => fields.iter().map(|f| &f.1.ty).collect(),
        Dict { value, .. } => vec![value],
        Ree { value, .. } => vec![&value.ty],
        _ => vec![],
    }
}

/// every node of the type is a kind of the committed IPC grid; a dictionary directly inside a dictionary is documented as
/// unsupported ("cannot encode direct dictionary-of-dictionary values") and therefore outside
fn in_ipc_grid(t: &LType) -> bool {
    if !grid().ipc.iter().any(|k| k == kind(t)) {
        return false;
    }
    if let LType::Dict { value, .. } = t {
        if matches!(**value, LType::Dict { .. }) {
            return false;
        }
    }
    children(t).into_iter().all(in_ipc_grid)
}

fn has_kind(t: &LType, k: &str) -> bool {
    t.any(&|x| kind(x) == k)
}
fn has_dict(t: &LType) -> bool {
    t.any(&|x| matches!(x, LType::Dict { .. }))
}

/// Flight/Hydrate grid: a dictionary may sit at the top level or below the listed containers only
fn flight_hydrate_ok(t: &LType, top: bool) -> bool {
    if !has_dict(t) {
        return true;
    }
    let g = grid();
    match t {
        LType::Dict { value, .. } => !has_dict(value),
        _ => {
            let k = kind(t);
            (g.flight_hydrate_containers.iter().any(|x| x == k) || (top && g.flight_hydrate_top_only.iter().any(|x| x == k))) && children(t).into_iter().all(|c| flight_hydrate_ok(c, false))
        }
    }
}

// ------------------------------------------------------------------------------------------------
// write options
#[derive(Clone, Debug)]
struct WOpts {
    align: usize,
    v4: bool,
    legacy: bool,
    /// 0 none, 1 lz4, 2 zstd
    comp: u8,
    level: Option<i32>,
    delta: bool,
}
impl WOpts {
    fn default_opts() -> Self {
        WOpts { align: 64, v4: false, legacy: false, comp: 0, level: None, delta: false }
    }
    fn build(&self) -> Result<IpcWriteOptions, Fail> {
        let r = (|| -> Result<IpcWriteOptions, ArrowError> {
            let mut o = IpcWriteOptions::try_new(self.align, self.legacy, if self.v4 { MetadataVersion::V4 } else { MetadataVersion::V5 })?;
            if self.comp != 0 {
                o = o.try_with_compression(Some(if self.comp == 1 { CompressionType::LZ4_FRAME } else { CompressionType::ZSTD }))?;
            }
            if let Some(l) = self.level {
                o = o.try_with_compression_level(Some(l))?;
            }
            Ok(o.with_dictionary_handling(if self.delta { IpcDict::Delta } else { IpcDict::Resend }))
        })();
        r.map_err(|e| Fail::new("options:err", format!("documented option combination {:?} rejected: {}", self, e)))
    }
    fn nondefault(&self) -> bool {
        self.align != 64 || self.v4 || self.comp != 0 || self.delta
    }
    fn classes(&self, c: &mut Case) {
        c.class(format!("align:{}", self.align));
        c.class(if self.v4 { if self.legacy { "version:V4-legacy" } else { "version:V4" } } else { "version:V5" });
        c.class(match self.comp {
            0 => "compression:none",
            1 => "compression:lz4",
            _ => "compression:zstd",
        });
        if self.level.is_some() {
            c.class("compression:zstd-level");
        }
        c.class(if self.delta { "dict-handling:delta" } else { "dict-handling:resend" });
    }
    fn json(&self) -> serde_json::Value {
        json!({"align": self.align, "v4": self.v4, "legacy": self.legacy, "comp": self.comp, "level": self.level, "delta": self.delta})
    }
}

fn gen_wopts(t: &mut Tape, allow_delta: bool) -> WOpts {
    let align = *t.pick(&[64usize, 8, 16, 32]);
    let v4 = t.chance(56);
    let legacy = v4 && t.bool();
    let comp: u8 = if v4 { 0 } else { *t.pick(&[0u8, 0, 1, 2]) };
    let level = if comp == 2 && t.bool() { Some(*t.pick(&[1i32, 3, 9, -3, 19])) } else { None };
    let delta = allow_delta && t.chance(110);
    WOpts { align, v4, legacy, comp, level, delta }
}

// ------------------------------------------------------------------------------------------------
// schema / batches
struct Sch {
    fields: Vec<LField>,
    schema: SchemaRef,
}

fn gen_meta(t: &mut Tape) -> HashMap<String, String> {
    let n = match t.below(6) {
        0..=3 => 0,
        4 => 1,
        _ => 2,
    };
    (0..n).map(|_| (gen_string(t, 8), gen_string(t, 20))).collect()
}

const ODD_NAMES: [&str; 5] = ["a b", "名前", "x.y", "q\"uote", ""];

fn gen_schema(t: &mut Tape, ncols: usize, pred: &dyn Fn(&LType) -> bool, fix: &dyn Fn(LField) -> LField, meta_ok: &dyn Fn(&LField) -> bool) -> Sch {
    let cfg = TypeCfg::all();
    let mut fields: Vec<LField> = gen_fields(t, &cfg, ncols, pred).into_iter().map(fix).collect();
    let mut used_empty = false;
    for (i, f) in fields.iter_mut().enumerate() {
        if t.chance(40) {
            let base = *t.pick(&ODD_NAMES);
            if base.is_empty() && !used_empty {
                used_empty = true;
                f.name = String::new();
            } else {
                f.name = format!("{}{}", base, i);
            }
        }
    }
    let afields: Vec<Field> = fields
        .iter()
        .map(|f| {
            let m = if meta_ok(f) { gen_meta(t) } else { HashMap::new() };
            f.arrow().with_metadata(m)
        })
        .collect();
    let sm = gen_meta(t);
    Sch { fields, schema: Arc::new(Schema::new_with_metadata(afields, sm)) }
}

fn list_like(t: &LType) -> bool {
    matches!(t, LType::List(..) | LType::FixedList(..) | LType::Map { .. })
}

/// a run-end encoded node below a list-like ancestor (at any distance)
fn ree_below_list(t: &LType, below: bool) -> bool {
    if below && matches!(t, LType::Ree { .. }) {
        return true;
    }
    let b = below || list_like(t);
    children(t).into_iter().any(|c| ree_below_list(c, b))
}

/// a union below a list-like ancestor (at any distance)
fn union_below_list(t: &LType, below: bool) -> bool {
    if below && matches!(t, LType::Union { .. }) {
        return true;
    }
    let b = below || list_like(t);
    children(t).into_iter().any(|c| union_below_list(c, b))
}

/// Known findings avoided by the IPC schema generators (counted; disabled when a case is replayed in strict mode):
///  * `ree-v4` (repro_ree_v4): a run-end encoded column written with metadata V4 cannot be read back;
///  * `list-union-slice` (repro_list_union): the writer slices the child of a list-like column with `ArrayData::slice`
///    but writes a union child without applying that slice.
struct Avoid {
    ree_v4: std::cell::Cell<u32>,
    list_union: std::cell::Cell<u32>,
}
impl Avoid {
    fn new() -> Self {
        Avoid { ree_v4: Default::default(), list_union: Default::default() }
    }
    /// true = the type has a known-bad shape and must be redrawn
    fn bad(&self, t: &LType, v4: bool) -> bool {
        if v4 && has_kind(t, "RunEndEncoded") {
            self.ree_v4.set(self.ree_v4.get() + 1);
            return true;
        }
        if union_below_list(t, false) {
            self.list_union.set(self.list_union.get() + 1);
            return true;
        }
        false
    }
    fn report(&self, c: &mut Case) {
        if self.ree_v4.get() > 0 {
            c.exclude("ree-v4");
        }
        if self.list_union.get() > 0 {
            c.exclude("list-union-slice");
        }
    }
}

fn gen_ipc_schema(c: &mut Case, ncols: usize, wo: &WOpts) -> Sch {
    let strict = c.strict;
    let avoid = Avoid::new();
    let sch = {
        let pred = |t: &LType| in_ipc_grid(t) && (strict || !avoid.bad(t, wo.v4));
        gen_schema(&mut c.tape, ncols, &pred, &|f| f, &|_| true)
    };
    avoid.report(c);
    sch
}

/// Known finding `ree-empty-slice` (repro_ree_empty_slice): a run-end encoded array that the writer sees with length 0 while
/// its run-ends child is not empty (zero-length slice, or the child of an empty / all-empty list) is written with a single
/// run end of 0, which no reader accepts. This mirrors the slicing the writer applies on the way down.
fn ree_empty_slice_hazard(data: &arrow_data::ArrayData) -> bool {
    use arrow_buffer::ArrowNativeType;
    fn child_range<O: ArrowNativeType>(data: &arrow_data::ArrayData) -> (usize, usize) {
        let offs: &[O] = data.buffers()[0].typed_data::<O>();
        let s = offs[data.offset()].as_usize();
        let e = offs[data.offset() + data.len()].as_usize();
        (s, e - s)
    }
    match data.data_type() {
        DataType::RunEndEncoded(..) => {
            if data.len() == 0 && data.child_data()[0].len() > 0 {
                return true;
            }
            ree_empty_slice_hazard(&data.child_data()[1])
        }
        DataType::List(_) | DataType::Map(..) | DataType::LargeList(_) => {
            let child = &data.child_data()[0];
            if data.is_empty() {
                return ree_empty_slice_hazard(&child.slice(0, 0));
            }
            let (s, l) = if matches!(data.data_type(), DataType::LargeList(_)) { child_range::<i64>(data) } else { child_range::<i32>(data) };
            ree_empty_slice_hazard(&child.slice(s, l))
        }
        DataType::ListView(_) | DataType::LargeListView(_) => {
            let child = &data.child_data()[0];
            if data.is_empty() { ree_empty_slice_hazard(&child.slice(0, 0)) } else { ree_empty_slice_hazard(child) }
        }
        DataType::FixedSizeList(_, n) => {
            let n = *n as usize;
            ree_empty_slice_hazard(&data.child_data()[0].slice(data.offset() * n, data.len() * n))
        }
        _ => data.child_data().iter().any(ree_empty_slice_hazard),
    }
}

/// true (and counted) when a generated batch sequence must be skipped because of `ree-empty-slice`
fn skip_ree_empty_slice(c: &mut Case, sch: &Sch, g: &Gen) -> bool {
    if c.strict || !sch.fields.iter().any(|f| has_kind(&f.ty, "RunEndEncoded")) {
        return false;
    }
    let hit = g.batches.iter().any(|b| b.columns().iter().any(|col| ree_empty_slice_hazard(&col.to_data())));
    if hit {
        c.exclude("ree-empty-slice");
    }
    hit
}

fn gen_rows(t: &mut Tape) -> usize {
    match t.below(12) {
        0 => 0,
        1 => 1,
        2 => *t.pick(&[8usize, 9, 63, 64, 65, 130]),
        _ => t.below(20),
    }
}

struct Gen {
    batches: Vec<RecordBatch>,
    logical: Vec<LBatch>,
    rows: Vec<usize>,
    /// some non-empty batch with >= 1 column starts at an offset that is not a multiple of 8
    odd_slice: bool,
}

fn slice_l(all: &LBatch, off: usize, len: usize) -> LBatch {
    all.iter().map(|c| c[off..off + len].to_vec()).collect()
}

/// `shared`: all batches are slices of one realised batch (dictionaries identical across batches, as `FileWriter` requires);
/// otherwise every batch is realised on its own (padded by `pre` rows and sliced).
fn gen_batches(t: &mut Tape, sch: &Sch, n: usize, shared: bool, lay: &Lay) -> Result<Gen, Fail> {
    let vcfg = ValCfg::default();
    // `ree-empty-slice`: most zero-length run-end arrays come from zero-row batches; keep those away from run-end schemas
    let min_rows = usize::from(sch.fields.iter().any(|f| has_kind(&f.ty, "RunEndEncoded")));
    let rows: Vec<usize> = (0..n).map(|_| gen_rows(t).max(min_rows)).collect();
    let mut g = Gen { batches: vec![], logical: vec![], rows: rows.clone(), odd_slice: false };
    let ncols = sch.fields.len();
    if shared {
        let pre = t.bias_offset().min(9);
        let post = t.below(3);
        let total = pre + rows.iter().sum::<usize>() + post;
        let all = gen_lbatch(t, &sch.fields, total, &vcfg);
        let big = no_panic("realise", || realise_batch(t, &sch.schema, &sch.fields, &all, total, lay))?;
        let mut off = pre;
        for r in &rows {
            g.batches.push(big.slice(off, *r));
            g.logical.push(slice_l(&all, off, *r));
            if off % 8 != 0 && *r > 0 && ncols > 0 {
                g.odd_slice = true;
            }
            off += r;
        }
    } else {
        for r in &rows {
            let pre = t.bias_offset().min(9);
            let post = t.below(2);
            let total = pre + r + post;
            let all = gen_lbatch(t, &sch.fields, total, &vcfg);
            let big = no_panic("realise", || realise_batch(t, &sch.schema, &sch.fields, &all, total, lay))?;
            g.batches.push(big.slice(pre, *r));
            g.logical.push(slice_l(&all, pre, *r));
            if pre % 8 != 0 && *r > 0 && ncols > 0 {
                g.odd_slice = true;
            }
        }
    }
    Ok(g)
}

fn label_schema(c: &mut Case, sch: &Sch) {
    c.class(format!("cols:{}", sch.fields.len()));
    for f in &sch.fields {
        c.class(format!("family:{}", f.ty.family()));
        for k in ["Dictionary", "RunEndEncoded", "SparseUnion", "DenseUnion", "Utf8View", "BinaryView", "ListView", "LargeListView", "Map", "FixedSizeList", "Null"] {
            if !matches!(&f.ty, x if kind(x) == k) && has_kind(&f.ty, k) {
                c.class(format!("nested:{}", k));
            }
        }
        if !f.nullable {
            c.class("field:non-nullable");
        }
    }
    if !sch.schema.metadata().is_empty() {
        c.class("schema-metadata");
    }
    if sch.schema.fields().iter().any(|f| !f.metadata().is_empty()) {
        c.class("field-metadata");
    }
}

fn interesting_type(sch: &Sch) -> bool {
    sch.fields.iter().any(|f| f.ty.is_nested() || f.ty.any(&|x| matches!(x, LType::Dict { .. } | LType::Ree { .. } | LType::Utf8(Enc::View) | LType::Binary(Enc::View) | LType::Union { .. })))
}

fn describe(c: &mut Case, sub: &str, sch: &Sch, g: &Gen, extra: serde_json::Value) {
    let types: Vec<String> = sch.schema.fields().iter().map(|f| format!("{}{}: {}", f.name(), if f.is_nullable() { "?" } else { "" }, f.data_type())).collect();
    let first: Vec<String> = g.logical.first().map(|b| b.iter().map(|col| short_vec(col)).collect()).unwrap_or_default();
    c.describe(json!({"sub": sub, "fields": types, "rows": g.rows, "first_batch": first, "cfg": extra}));
}

// ------------------------------------------------------------------------------------------------
// oracle helpers
fn check_schema(what: &str, got: &Schema, want: &Schema) -> CaseResult {
    ensure!(got.fields().len() == want.fields().len(), format!("{}:schema:field-count", what), "decoded schema has {} fields, written {}", got.fields().len(), want.fields().len());
    for (g, w) in got.fields().iter().zip(want.fields().iter()) {
        ensure!(g.name() == w.name(), format!("{}:schema:name", what), "field name {:?} != {:?}", g.name(), w.name());
        ensure!(g.data_type() == w.data_type(), format!("{}:schema:type", what), "field {:?}: type {} != {}", w.name(), g.data_type(), w.data_type());
        ensure!(g.is_nullable() == w.is_nullable(), format!("{}:schema:nullable", what), "field {:?}: nullable {} != {}", w.name(), g.is_nullable(), w.is_nullable());
        ensure!(g.metadata() == w.metadata(), format!("{}:schema:field-metadata", what), "field {:?}: metadata {:?} != {:?}", w.name(), g.metadata(), w.metadata());
    }
    ensure!(got.metadata() == want.metadata(), format!("{}:schema:metadata", what), "schema metadata {:?} != {:?}", got.metadata(), want.metadata());
    ensure!(got == want, format!("{}:schema:eq", what), "decoded schema != written schema: {:?} vs {:?}", got, want);
    Ok(())
}

/// one decoded batch against the logical rows written
fn check_batch(what: &str, got: &RecordBatch, schema: &Schema, want: &LBatch, rows: usize) -> CaseResult {
    check_schema(what, got.schema().as_ref(), schema)?;
    ensure!(got.num_rows() == rows, format!("{}:rows", what), "decoded batch has {} rows, written {}", got.num_rows(), rows);
    ensure!(got.num_columns() == want.len(), format!("{}:columns", what), "decoded batch has {} columns, written {}", got.num_columns(), want.len());
    for (i, col) in got.columns().iter().enumerate() {
        let f = schema.field(i);
        ensure!(col.data_type() == f.data_type(), format!("{}:column-type", what), "column {} has type {} but the schema says {}", i, col.data_type(), f.data_type());
        ensure!(col.len() == rows, format!("{}:column-len", what), "column {} has length {} in a batch of {} rows", i, col.len(), rows);
        let e = no_panic(&format!("{}:extract", what), || extract(col.as_ref()))?;
        if let Some(r) = first_diff(&e, &want[i]) {
            fail!(format!("{}:value", what), "column {} ({}) row {}: decoded {:?} written {:?}", i, f.data_type(), r, e.get(r).map(|x| x.short()), want[i].get(r).map(|x| x.short()));
        }
        check_valid(col.as_ref(), what)?;
    }
    Ok(())
}

fn check_all(what: &str, got: &[RecordBatch], schema: &Schema, want: &[LBatch], rows: &[usize]) -> CaseResult {
    ensure!(got.len() == want.len(), format!("{}:batch-count", what), "decoded {} batches, written {}", got.len(), want.len());
    for (i, b) in got.iter().enumerate() {
        check_batch(what, b, schema, &want[i], rows[i]).map_err(|f| Fail::new(f.sig, format!("batch {}: {}", i, f.msg)))?;
    }
    Ok(())
}

fn gen_projection(t: &mut Tape, ncols: usize) -> Vec<usize> {
    if ncols == 0 {
        return vec![];
    }
    let p = t.perm(ncols);
    let k = t.below(ncols + 1);
    let mut v: Vec<usize> = p.into_iter().take(k).collect();
    match t.below(8) {
        // natural order
        0..=2 => v.sort(),
        // a column twice (the decoder documents "a projected field can appear more than once")
        3 if !v.is_empty() => {
            let d = v[t.below(v.len())];
            v.push(d)
        }
        _ => {}
    }
    v
}

fn project_l(b: &LBatch, p: &[usize]) -> LBatch {
    p.iter().map(|i| b[*i].clone()).collect()
}

/// projection on read == projecting after a full read
fn check_projected(what: &str, got: &[RecordBatch], full: &[RecordBatch], proj: &[usize], schema: &Schema, want: &[LBatch], rows: &[usize]) -> CaseResult {
    let ps = no_panic(&format!("{}:schema-project", what), || schema.project(proj))?.map_err(|e| Fail::new(format!("{}:schema-project-err", what), e.to_string()))?;
    let pw: Vec<LBatch> = want.iter().map(|b| project_l(b, proj)).collect();
    check_all(what, got, &ps, &pw, rows)?;
    for (i, (g, f)) in got.iter().zip(full).enumerate() {
        let fp = no_panic(&format!("{}:batch-project", what), || f.project(proj))?.map_err(|e| Fail::new(format!("{}:batch-project-err", what), e.to_string()))?;
        ensure!(g.schema() == fp.schema(), format!("{}:vs-full:schema", what), "batch {}: projected read schema differs from projecting the full read", i);
        for (ci, (a, b)) in g.columns().iter().zip(fp.columns()).enumerate() {
            ensure!(a.data_type() == b.data_type(), format!("{}:vs-full:type", what), "batch {} column {}", i, ci);
            let (ea, eb) = (extract(a.as_ref()), extract(b.as_ref()));
            ensure!(first_diff(&ea, &eb).is_none(), format!("{}:vs-full:value", what), "batch {} projected column {} differs from the full read", i, ci);
        }
    }
    Ok(())
}

fn aligned_buffer(bytes: &[u8]) -> Buffer {
    let mut mb = MutableBuffer::new(bytes.len().max(64));
    mb.extend_from_slice(bytes);
    mb.into()
}

fn arrow_err(sig: &str, what: &str, e: impl std::fmt::Display) -> Fail {
    Fail::new(sig, format!("{}: {}", what, e))
}

// ------------------------------------------------------------------------------------------------
// IPC file
fn write_file(schema: &Schema, batches: &[RecordBatch], opts: IpcWriteOptions, custom: &HashMap<String, String>) -> Result<Vec<u8>, ArrowError> {
    let mut w = FileWriter::try_new_with_options(Vec::new(), schema, opts)?;
    for (k, v) in custom {
        w.write_metadata(k.clone(), v.clone());
    }
    for b in batches {
        w.write(b)?;
    }
    w.finish()?;
    w.into_inner()
}

/// documented meaning of `IpcWriteOptions::alignment`: "Write padding after memory buffers to this multiple of bytes";
/// every block of the footer (dictionary and record batch messages) starts and ends on such a multiple
fn check_block_alignment(bytes: &[u8], align: usize) -> CaseResult {
    let trailer_start = bytes.len() - 10;
    let footer_len = read_footer_length(bytes[trailer_start..].try_into().unwrap()).map_err(|e| arrow_err("file:footer-err", "read_footer_length", e))?;
    let footer = root_as_footer(&bytes[trailer_start - footer_len..trailer_start]).map_err(|e| Fail::new("file:footer-err", format!("{e:?}")))?;
    for (what, blocks) in [("dictionary", footer.dictionaries()), ("record batch", footer.recordBatches())] {
        for block in blocks.iter().flatten() {
            let (o, m, b) = (block.offset() as usize, block.metaDataLength() as usize, block.bodyLength() as usize);
            ensure!(o % align == 0 && m % align == 0 && b % align == 0, "file:block-alignment", "{} block offset {} metadata length {} body length {} are not all multiples of the alignment {}", what, o, m, b, align);
            ensure!(o + m + b <= trailer_start - footer_len, "file:block-range", "{} block {}+{}+{} exceeds the data section ({} bytes)", what, o, m, b, trailer_start - footer_len);
        }
    }
    Ok(())
}

fn read_file_decoder(bytes: &[u8], proj: Option<Vec<usize>>, require_alignment: bool) -> Result<(Schema, Vec<RecordBatch>), ArrowError> {
    let buffer = aligned_buffer(bytes);
    let trailer_start = bytes.len() - 10;
    let footer_len = read_footer_length(bytes[trailer_start..].try_into().unwrap())?;
    let footer = root_as_footer(&bytes[trailer_start - footer_len..trailer_start]).map_err(|e| ArrowError::ParseError(format!("footer: {e:?}")))?;
    let schema = try_fb_to_schema(footer.schema().ok_or_else(|| ArrowError::ParseError("no schema in footer".into()))?)?;
    let mut dec = FileDecoder::new(Arc::new(schema.clone()), footer.version()).with_require_alignment(require_alignment);
    if let Some(p) = proj {
        dec = dec.with_projection(p);
    }
    for block in footer.dictionaries().iter().flatten() {
        let len = block.bodyLength() as usize + block.metaDataLength() as usize;
        let data = buffer.slice_with_length(block.offset() as usize, len);
        dec.read_dictionary(block, &data)?;
    }
    let mut out = vec![];
    for block in footer.recordBatches().iter().flatten() {
        let len = block.bodyLength() as usize + block.metaDataLength() as usize;
        let data = buffer.slice_with_length(block.offset() as usize, len);
        match dec.read_record_batch(block, &data)? {
            Some(b) => out.push(b),
            None => return Err(ArrowError::IpcError("record batch block decoded to None".into())),
        }
    }
    Ok((schema, out))
}

/// reader-side choices, drawn before the (tape hungry) data so that they do not degenerate when a tape runs out
struct FilePlan {
    index: u8,
    proj: Vec<usize>,
    dproj: Option<Vec<usize>>,
    want_ra: bool,
}
fn gen_file_plan(t: &mut Tape, ncols: usize) -> FilePlan {
    FilePlan { index: t.u8(), proj: gen_projection(t, ncols), dproj: if t.bool() { Some(gen_projection(t, ncols)) } else { None }, want_ra: !t.chance(80) }
}

fn verify_file(c: &mut Case, bytes: &[u8], sch: &Sch, want: &[LBatch], rows: &[usize], custom: &HashMap<String, String>, wo: &WOpts, plan: &FilePlan) -> CaseResult {
    let schema = sch.schema.as_ref();
    let ncols = sch.fields.len();
    check_block_alignment(bytes, wo.align)?;
    // 1. FileReader, sequential + random access
    let mut rd = no_panic("file:open", || FileReader::try_new(Cursor::new(bytes), None))?.map_err(|e| arrow_err("file:open-err", "FileReader::try_new", e))?;
    check_schema("file:reader", rd.schema().as_ref(), schema)?;
    ensure!(rd.num_batches() == want.len(), "file:num_batches", "num_batches {} but {} batches were written", rd.num_batches(), want.len());
    ensure!(rd.custom_metadata() == custom, "file:custom-metadata", "custom metadata {:?} != written {:?}", rd.custom_metadata(), custom);
    let full: Vec<RecordBatch> = no_panic("file:read", || (&mut rd).collect::<Result<Vec<_>, _>>())?.map_err(|e| arrow_err("file:read-err", "FileReader::next", e))?;
    check_all("file:reader", &full, schema, want, rows)?;
    c.evals(1);
    if !want.is_empty() {
        let k = (plan.index as usize * want.len()) >> 8;
        no_panic("file:set_index", || rd.set_index(k))?.map_err(|e| arrow_err("file:set_index-err", "set_index", e))?;
        let b = no_panic("file:read-at", || rd.next())?;
        let b = match b {
            Some(Ok(b)) => b,
            Some(Err(e)) => return Err(arrow_err("file:read-at-err", "next after set_index", e)),
            None => fail!("file:read-at-none", "set_index({}) then next() returned None", k),
        };
        check_batch("file:set_index", &b, schema, &want[k], rows[k])?;
        c.class("reader:set_index");
        c.evals(1);
    }
    // 2. FileReaderBuilder with projection
    let proj = plan.proj.clone();
    let prd = no_panic("file:builder", || FileReaderBuilder::new().with_projection(proj.clone()).build(Cursor::new(bytes)))?.map_err(|e| arrow_err("file:builder-err", "FileReaderBuilder::build", e))?;
    let ps = schema.project(&proj).map_err(|e| arrow_err("file:schema-project-err", "Schema::project", e))?;
    check_schema("file:projected", prd.schema().as_ref(), &ps)?;
    let pgot: Vec<RecordBatch> = no_panic("file:projected-read", || prd.collect::<Result<Vec<_>, _>>())?.map_err(|e| arrow_err("file:projected-read-err", "projected read", e))?;
    check_projected("file:projected", &pgot, &full, &proj, schema, want, rows)?;
    c.class(format!("projection:{}", if proj.is_empty() { "empty" } else if proj.len() == ncols { "all" } else { "subset" }));
    c.evals(1);
    // 3. FileDecoder by blocks (optionally projected; require_alignment only where every buffer offset is 64-byte aligned)
    let dproj = plan.dproj.clone();
    let ra = wo.align == 64 && wo.comp == 0 && plan.want_ra;
    let (dschema, dgot) = no_panic("file:decoder", || read_file_decoder(bytes, dproj.clone(), ra))?.map_err(|e| arrow_err(if ra { "file:decoder-err:require_alignment" } else { "file:decoder-err" }, "FileDecoder", e))?;
    check_schema("file:decoder", &dschema, schema)?;
    match &dproj {
        Some(p) => check_projected("file:decoder-projected", &dgot, &full, p, schema, want, rows)?,
        None => check_all("file:decoder", &dgot, schema, want, rows)?,
    }
    c.class(if ra { "reader:FileDecoder+require_alignment" } else { "reader:FileDecoder" });
    c.evals(1);
    Ok(())
}

fn sub_file(c: &mut Case) -> CaseResult {
    let wo = gen_wopts(&mut c.tape, true);
    let ncols = c.tape.below(6);
    let plan = gen_file_plan(&mut c.tape, ncols);
    let custom = if c.tape.chance(48) { gen_meta(&mut c.tape) } else { HashMap::new() };
    let sch = gen_ipc_schema(c, ncols, &wo);
    let n = c.tape.below(7);
    let dict = sch.fields.iter().any(|f| has_dict(&f.ty));
    // FileWriter documents "only a single dictionary for a given field across all batches": mirrored by slicing one batch
    let shared = dict || c.tape.chance(90);
    let g = gen_batches(&mut c.tape, &sch, n, shared, &Lay::fancy())?;
    describe(c, "ipc_file", &sch, &g, json!({"opts": wo.json(), "projection": plan.proj, "decoder_projection": plan.dproj}));
    if skip_ree_empty_slice(c, &sch, &g) {
        return Ok(());
    }
    label_schema(c, &sch);
    wo.classes(c);
    c.class(format!("batches:{}", n.min(3)));
    c.class(if shared { "mode:sliced-from-one" } else { "mode:independent" });
    if g.rows.iter().any(|r| *r == 0) {
        c.class("rows:0");
    }
    if !custom.is_empty() {
        c.class("file:custom-metadata");
    }
    let opts = wo.build()?;
    let bytes = no_panic("file:write", || write_file(&sch.schema, &g.batches, opts, &custom))?.map_err(|e| arrow_err("file:write-err", "FileWriter rejected a batch sequence inside the committed grid", e))?;
    verify_file(c, &bytes, &sch, &g.logical, &g.rows, &custom, &wo, &plan)?;
    if n >= 2 && g.odd_slice && (interesting_type(&sch) || wo.nondefault()) {
        c.nontrivial();
    }
    Ok(())
}

// ------------------------------------------------------------------------------------------------
// IPC stream
fn write_stream(schema: &Schema, batches: &[RecordBatch], opts: IpcWriteOptions, encoder: bool) -> Result<Vec<u8>, ArrowError> {
    if encoder {
        let mut enc = StreamEncoder::try_new_with_options(schema, opts)?;
        let mut out: Vec<u8> = vec![];
        for b in batches {
            for buf in enc.encode(b)? {
                out.extend_from_slice(buf.as_slice());
            }
        }
        for buf in enc.finish()? {
            out.extend_from_slice(buf.as_slice());
        }
        Ok(out)
    } else {
        let mut w = StreamWriter::try_new_with_options(Vec::new(), schema, opts)?;
        for b in batches {
            w.write(b)?;
        }
        w.finish()?;
        w.into_inner()
    }
}

/// feed the StreamDecoder with the given chunk sizes (empty = the whole stream in one 64-byte aligned buffer)
fn read_stream_decoder(bytes: &[u8], chunks: &[usize], require_alignment: bool) -> Result<(Option<SchemaRef>, Vec<RecordBatch>), ArrowError> {
    let mut dec = StreamDecoder::new().with_require_alignment(require_alignment);
    let mut out = vec![];
    let mut feed = |mut buf: Buffer, dec: &mut StreamDecoder| -> Result<(), ArrowError> {
        while !buf.is_empty() {
            if let Some(b) = dec.decode(&mut buf)? {
                out.push(b);
            }
        }
        Ok(())
    };
    if chunks.is_empty() {
        feed(aligned_buffer(bytes), &mut dec)?;
    } else {
        let mut pos = 0;
        let mut i = 0;
        while pos < bytes.len() {
            let n = chunks[i % chunks.len()].max(1).min(bytes.len() - pos);
            feed(Buffer::from(&bytes[pos..pos + n]), &mut dec)?;
            pos += n;
            i += 1;
        }
    }
    dec.finish()?;
    Ok((dec.schema(), out))
}

struct StreamPlan {
    buffered: bool,
    proj: Vec<usize>,
    chunked: bool,
    chunk_picks: Vec<u8>,
    want_ra: bool,
    encoder: bool,
}
fn gen_stream_plan(t: &mut Tape, ncols: usize) -> StreamPlan {
    let buffered = t.bool();
    let proj = gen_projection(t, ncols);
    let chunked = t.bool();
    let n = 1 + t.below(4);
    StreamPlan { buffered, proj, chunked, chunk_picks: (0..n).map(|_| t.below(8) as u8).collect(), want_ra: !t.chance(80), encoder: t.bool() }
}

fn verify_stream(c: &mut Case, bytes: &[u8], sch: &Sch, want: &[LBatch], rows: &[usize], wo: &WOpts, plan: &StreamPlan) -> CaseResult {
    let schema = sch.schema.as_ref();
    let ncols = sch.fields.len();
    // 1. StreamReader, unbuffered or buffered
    let buffered = plan.buffered;
    let full: Vec<RecordBatch> = if buffered {
        let mut rd = no_panic("stream:open", || StreamReader::try_new_buffered(Cursor::new(bytes), None))?.map_err(|e| arrow_err("stream:open-err", "StreamReader::try_new_buffered", e))?;
        check_schema("stream:reader", rd.schema().as_ref(), schema)?;
        let v = no_panic("stream:read", || (&mut rd).collect::<Result<Vec<_>, _>>())?.map_err(|e| arrow_err("stream:read-err", "StreamReader::next", e))?;
        ensure!(rd.is_finished(), "stream:not-finished", "reader returned None but is_finished() is false");
        v
    } else {
        let mut rd = no_panic("stream:open", || StreamReader::try_new(bytes, None))?.map_err(|e| arrow_err("stream:open-err", "StreamReader::try_new", e))?;
        check_schema("stream:reader", rd.schema().as_ref(), schema)?;
        let v = no_panic("stream:read", || (&mut rd).collect::<Result<Vec<_>, _>>())?.map_err(|e| arrow_err("stream:read-err", "StreamReader::next", e))?;
        ensure!(rd.is_finished(), "stream:not-finished", "reader returned None but is_finished() is false");
        v
    };
    check_all("stream:reader", &full, schema, want, rows)?;
    c.class(if buffered { "reader:StreamReader-buffered" } else { "reader:StreamReader" });
    c.evals(1);
    // 2. projection
    let proj = plan.proj.clone();
    let prd = no_panic("stream:projected-open", || StreamReader::try_new(bytes, Some(proj.clone())))?.map_err(|e| arrow_err("stream:projected-open-err", "StreamReader::try_new(projection)", e))?;
    let ps = schema.project(&proj).map_err(|e| arrow_err("stream:schema-project-err", "Schema::project", e))?;
    check_schema("stream:projected", prd.schema().as_ref(), &ps)?;
    let pgot: Vec<RecordBatch> = no_panic("stream:projected-read", || prd.collect::<Result<Vec<_>, _>>())?.map_err(|e| arrow_err("stream:projected-read-err", "projected read", e))?;
    check_projected("stream:projected", &pgot, &full, &proj, schema, want, rows)?;
    c.class(format!("projection:{}", if proj.is_empty() { "empty" } else if proj.len() == ncols { "all" } else { "subset" }));
    c.evals(1);
    // 3. StreamDecoder
    let chunked = plan.chunked;
    // known finding `decoder-dense-union-align` (repro_decoder_union_align): the decoder turns the offsets buffer of a dense
    // union into a ScalarBuffer<i32> without re-aligning it and panics when a message body sits at an odd address inside a
    // pushed buffer; with such a column only chunk sizes that keep every body 8-byte aligned are generated
    let dense = sch.fields.iter().any(|f| has_kind(&f.ty, "DenseUnion"));
    let sizes: &[usize] = if dense && !c.strict { &[8, 24, 8, 64, 8, 64, 104, 1000] } else { &[1, 3, 4, 7, 8, 64, 100, 1000] };
    if dense && !c.strict && chunked {
        c.exclude("decoder-dense-union-align");
    }
    let chunks: Vec<usize> = if chunked { plan.chunk_picks.iter().map(|i| sizes[*i as usize]).collect() } else { vec![] };
    let ra = !chunked && wo.align == 64 && wo.comp == 0 && plan.want_ra;
    let (ds, dgot) = no_panic("stream:decoder", || read_stream_decoder(bytes, &chunks, ra))?.map_err(|e| arrow_err(if ra { "stream:decoder-err:require_alignment" } else { "stream:decoder-err" }, "StreamDecoder", e))?;
    match ds {
        Some(s) => check_schema("stream:decoder", s.as_ref(), schema)?,
        None => fail!("stream:decoder:no-schema", "StreamDecoder::schema() is None after a complete stream"),
    }
    check_all("stream:decoder", &dgot, schema, want, rows)?;
    c.class(if chunked { "reader:StreamDecoder-chunked" } else if ra { "reader:StreamDecoder+require_alignment" } else { "reader:StreamDecoder" });
    c.evals(1);
    Ok(())
}

fn sub_stream(c: &mut Case) -> CaseResult {
    let wo = gen_wopts(&mut c.tape, true);
    let ncols = c.tape.below(6);
    let plan = gen_stream_plan(&mut c.tape, ncols);
    let sch = gen_ipc_schema(c, ncols, &wo);
    let n = c.tape.below(7);
    let shared = c.tape.chance(64);
    let g = gen_batches(&mut c.tape, &sch, n, shared, &Lay::fancy())?;
    let encoder = plan.encoder;
    describe(c, "ipc_stream", &sch, &g, json!({"opts": wo.json(), "encoder": encoder, "projection": plan.proj, "chunked": plan.chunked}));
    if skip_ree_empty_slice(c, &sch, &g) {
        return Ok(());
    }
    label_schema(c, &sch);
    wo.classes(c);
    c.class(format!("batches:{}", n.min(3)));
    c.class(if shared { "mode:sliced-from-one" } else { "mode:independent" });
    c.class(if encoder { "writer:StreamEncoder" } else { "writer:StreamWriter" });
    if g.rows.iter().any(|r| *r == 0) {
        c.class("rows:0");
    }
    let opts = wo.build()?;
    let bytes = no_panic("stream:write", || write_stream(&sch.schema, &g.batches, opts, encoder))?.map_err(|e| arrow_err("stream:write-err", "stream writer rejected a batch sequence inside the committed grid", e))?;
    verify_stream(c, &bytes, &sch, &g.logical, &g.rows, &wo, &plan)?;
    if n >= 2 && g.odd_slice && (interesting_type(&sch) || wo.nondefault()) {
        c.nontrivial();
    }
    Ok(())
}

// ------------------------------------------------------------------------------------------------
// Flight
fn hydrate_type(t: &DataType) -> DataType {
    let hf = |f: &Arc<Field>| -> Arc<Field> { Arc::new(f.as_ref().clone().with_data_type(hydrate_type(f.data_type()))) };
    match t {
        DataType::Dictionary(_, v) => hydrate_type(v),
        DataType::List(f) => DataType::List(hf(f)),
        DataType::LargeList(f) => DataType::LargeList(hf(f)),
        DataType::ListView(f) => DataType::ListView(hf(f)),
        DataType::LargeListView(f) => DataType::LargeListView(hf(f)),
        DataType::FixedSizeList(f, n) => DataType::FixedSizeList(hf(f), *n),
        DataType::Struct(fs) => DataType::Struct(Fields::from(fs.iter().map(hf).collect::<Vec<_>>())),
        DataType::Map(f, s) => DataType::Map(hf(f), *s),
        DataType::RunEndEncoded(r, v) => DataType::RunEndEncoded(r.clone(), hf(v)),
        DataType::Union(uf, m) => DataType::Union(UnionFields::try_new(uf.iter().map(|x| x.0), uf.iter().map(|x| hf(x.1))).expect("union fields"), *m),
        other => other.clone(),
    }
}

/// documented effect of `DictionaryHandling::Hydrate`: "the batch schema will be adjusted so that all dictionary encoded
/// fields are changed to fields of the dictionary value type" — names, nullability and metadata stay
fn hydrate_schema(s: &Schema) -> Schema {
    let fields: Vec<Field> = s.fields().iter().map(|f| f.as_ref().clone().with_data_type(hydrate_type(f.data_type()))).collect();
    Schema::new_with_metadata(fields, s.metadata().clone())
}

struct FlightCfg {
    max: Option<usize>,
    hydrate: bool,
    with_schema: bool,
}

fn flight_encode(schema: &SchemaRef, batches: &[RecordBatch], cfg: &FlightCfg, opts: IpcWriteOptions) -> (Option<SchemaRef>, Result<Vec<FlightData>, String>) {
    let mut b = FlightDataEncoderBuilder::new().with_options(opts).with_dictionary_handling(if cfg.hydrate { FlightDict::Hydrate } else { FlightDict::Resend });
    if let Some(m) = cfg.max {
        b = b.with_max_flight_data_size(m);
    }
    if cfg.with_schema {
        b = b.with_schema(schema.clone());
    }
    let input: Vec<arrow_flight::error::Result<RecordBatch>> = batches.iter().cloned().map(Ok).collect();
    let enc = b.build(futures::stream::iter(input));
    let known = enc.known_schema();
    let items: Vec<arrow_flight::error::Result<FlightData>> = futures::executor::block_on(enc.collect::<Vec<_>>());
    let mut out = vec![];
    for it in items {
        match it {
            Ok(d) => out.push(d),
            Err(e) => return (known, Err(e.to_string())),
        }
    }
    (known, Ok(out))
}

fn flight_stream(fd: &[FlightData]) -> impl futures::Stream<Item = arrow_flight::error::Result<FlightData>> + Send + 'static {
    futures::stream::iter(fd.to_vec().into_iter().map(Ok))
}

/// decoded batches appended row-wise; every batch must carry `schema`
fn concat_decoded(what: &str, got: &[RecordBatch], schema: &Schema, ncols: usize) -> Result<(LBatch, usize), Fail> {
    let mut acc: LBatch = vec![vec![]; ncols];
    let mut rows = 0;
    for (bi, b) in got.iter().enumerate() {
        check_schema(what, b.schema().as_ref(), schema).map_err(|f| Fail::new(f.sig, format!("decoded batch {}: {}", bi, f.msg)))?;
        ensure!(b.num_columns() == ncols, format!("{}:columns", what), "decoded batch {} has {} columns, written {}", bi, b.num_columns(), ncols);
        for (i, col) in b.columns().iter().enumerate() {
            ensure!(col.data_type() == schema.field(i).data_type(), format!("{}:column-type", what), "batch {} column {} has type {} but the schema says {}", bi, i, col.data_type(), schema.field(i).data_type());
            ensure!(col.len() == b.num_rows(), format!("{}:column-len", what), "batch {} column {}", bi, i);
            let e = no_panic(&format!("{}:extract", what), || extract(col.as_ref()))?;
            check_valid(col.as_ref(), what)?;
            acc[i].extend(e);
        }
        rows += b.num_rows();
    }
    Ok((acc, rows))
}

fn check_concat(what: &str, got: &[RecordBatch], schema: &Schema, want: &[LBatch], want_rows: &[usize], ncols: usize) -> CaseResult {
    let (acc, rows) = concat_decoded(what, got, schema, ncols)?;
    let total: usize = want_rows.iter().sum();
    ensure!(rows == total, format!("{}:total-rows", what), "decoded {} rows in total, written {}", rows, total);
    let mut w: LBatch = vec![vec![]; ncols];
    for b in want {
        for (i, col) in b.iter().enumerate() {
            w[i].extend(col.iter().cloned());
        }
    }
    if let Some((ci, r)) = lbatch_diff(&acc, &w) {
        fail!(format!("{}:value", what), "column {} ({}) row {} of the concatenation: decoded {:?} written {:?}", ci, schema.field(ci).data_type(), r, acc[ci].get(r).map(|x| x.short()), w[ci].get(r).map(|x| x.short()));
    }
    Ok(())
}

/// decode with the three documented decoders and compare the concatenation of rows
fn verify_flight(c: &mut Case, fd: &[FlightData], expected: &Schema, want: &[LBatch], want_rows: &[usize], ncols: usize, schema_expected: bool, no_dict_messages: bool) -> Result<usize, Fail> {
    // 1. FlightRecordBatchStream
    let mut st = FlightRecordBatchStream::new_from_flight_data(flight_stream(fd));
    let got: Vec<RecordBatch> = no_panic("flight:stream", || {
        futures::executor::block_on(async {
            let mut v = vec![];
            while let Some(b) = st.next().await {
                v.push(b?);
            }
            Ok::<_, arrow_flight::error::FlightError>(v)
        })
    })?
    .map_err(|e| arrow_err("flight:stream-err", "FlightRecordBatchStream", e))?;
    match st.schema() {
        Some(s) => check_schema("flight:stream", s.as_ref(), expected)?,
        None => ensure!(!schema_expected, "flight:stream:no-schema", "no schema decoded although one was announced (with_schema or >= 1 input batch)"),
    }
    check_concat("flight:stream", &got, expected, want, want_rows, ncols)?;
    c.evals(1);
    // 2. FlightDataDecoder (payload level)
    let dec = FlightDataDecoder::new(flight_stream(fd));
    let payloads = no_panic("flight:decoder", || futures::executor::block_on(dec.try_collect::<Vec<_>>()))?.map_err(|e| arrow_err("flight:decoder-err", "FlightDataDecoder", e))?;
    let mut schemas = 0;
    let mut got2 = vec![];
    for (i, p) in payloads.iter().enumerate() {
        match &p.payload {
            DecodedPayload::Schema(s) => {
                ensure!(i == 0, "flight:decoder:schema-position", "schema message at position {}", i);
                check_schema("flight:decoder", s.as_ref(), expected)?;
                schemas += 1;
            }
            DecodedPayload::RecordBatch(b) => got2.push(b.clone()),
            DecodedPayload::None => {}
        }
    }
    ensure!(schemas == usize::from(schema_expected), "flight:decoder:schema-count", "{} schema messages decoded, expected {}", schemas, usize::from(schema_expected));
    check_concat("flight:decoder", &got2, expected, want, want_rows, ncols)?;
    c.evals(1);
    // 3. flight_data_to_batches: schema message followed by record batch messages only
    if no_dict_messages && !fd.is_empty() {
        let got3 = no_panic("flight:to_batches", || flight_data_to_batches(fd))?.map_err(|e| arrow_err("flight:to_batches-err", "flight_data_to_batches", e))?;
        check_concat("flight:to_batches", &got3, expected, want, want_rows, ncols)?;
        c.class("decoder:flight_data_to_batches");
        c.evals(1);
    }
    Ok(got.len())
}

fn nested_union(t: &LType) -> bool {
    children(t).into_iter().any(|c| c.any(&|x| matches!(x, LType::Union { .. })))
}

fn sub_flight(c: &mut Case) -> CaseResult {
    let wo = gen_wopts(&mut c.tape, false);
    let hydrate = !c.tape.chance(112);
    let max = *c.tape.pick(&[None, Some(64usize), Some(1), Some(1024)]);
    let with_schema = c.tape.bool();
    let cfg = FlightCfg { max, hydrate, with_schema };
    let ncols = c.tape.below(6);
    let strict = c.strict;
    let avoid = Avoid::new();
    let avoided_union = std::cell::Cell::new(0u32);
    let avoided_fsl0 = std::cell::Cell::new(0u32);
    let avoided_ree_slice = std::cell::Cell::new(0u32);
    let sch = {
        let pred = |t: &LType| {
            if !in_ipc_grid(t) || (hydrate && !flight_hydrate_ok(t, true)) {
                return false;
            }
            if !strict && avoid.bad(t, wo.v4) {
                return false;
            }
            // `ree-empty-slice`: the encoder slices batches by rows when a size limit is set; any row range of a list-like
            // column may have an empty child range
            if !strict && max.is_some() && ree_below_list(t, false) {
                avoided_ree_slice.set(avoided_ree_slice.get() + 1);
                return false;
            }
            // known finding `hydrate-fsl0`: hydrating a dictionary below FixedSizeList(0) (arrow_cast::cast) loses the list length
            if !strict && hydrate && t.any(&|x| matches!(x, LType::FixedList(_, 0)) && has_dict(x)) {
                avoided_fsl0.set(avoided_fsl0.get() + 1);
                return false;
            }

            // known finding `flight-union-nullable`: the encoder rewrites every union field as non-nullable without metadata;
            // a nested union field must be declared nullable (its children carry the nulls), so nested unions are avoided
            if !strict && nested_union(t) {
                avoided_union.set(avoided_union.get() + 1);
                return false;
            }
            true
        };
        // ... and a top-level union field is declared non-nullable without field metadata
        let fix = |mut f: LField| {
            if !strict && matches!(f.ty, LType::Union { .. }) {
                avoided_union.set(avoided_union.get() + 1);
                f.nullable = false;
            }
            f
        };
        let meta_ok = |f: &LField| strict || !matches!(f.ty, LType::Union { .. });
        gen_schema(&mut c.tape, ncols, &pred, &fix, &meta_ok)
    };
    avoid.report(c);
    if avoided_union.get() > 0 {
        c.exclude("flight-union-nullable");
    }
    if avoided_fsl0.get() > 0 {
        c.exclude("hydrate-fsl0");
    }
    if avoided_ree_slice.get() > 0 {
        c.exclude("ree-empty-slice");
    }
    let n = c.tape.below(7);
    let shared = c.tape.chance(64);
    let g = gen_batches(&mut c.tape, &sch, n, shared, &Lay::fancy())?;
    describe(c, "flight", &sch, &g, json!({"opts": wo.json(), "hydrate": hydrate, "max": max, "with_schema": with_schema}));
    if skip_ree_empty_slice(c, &sch, &g) {
        return Ok(());
    }
    label_schema(c, &sch);
    wo.classes(c);
    c.class(format!("batches:{}", n.min(3)));
    c.class(if hydrate { "flight:hydrate" } else { "flight:resend" });
    c.class(match max {
        None => "max_size:default".to_string(),
        Some(m) => format!("max_size:{}", m),
    });
    c.class(if with_schema { "flight:with_schema" } else { "flight:schema-from-first-batch" });
    let dict = sch.fields.iter().any(|f| has_dict(&f.ty));
    if dict {
        c.class(if hydrate { "flight:hydrated-dictionary" } else { "flight:resent-dictionary" });
    }
    let opts = wo.build()?;
    let expected = if hydrate { hydrate_schema(&sch.schema) } else { sch.schema.as_ref().clone() };
    let (known, fd) = no_panic("flight:encode", || flight_encode(&sch.schema, &g.batches, &cfg, opts))?;
    let fd = fd.map_err(|e| Fail::new("flight:encode-err", format!("FlightDataEncoder rejected input inside the committed grid: {}", e)))?;
    if with_schema {
        match known {
            Some(k) => check_schema("flight:known_schema", k.as_ref(), &expected)?,
            None => fail!("flight:known_schema:none", "known_schema() is None although with_schema was used"),
        }
    }
    let schema_expected = with_schema || n >= 1;
    let decoded = verify_flight(c, &fd, &expected, &g.logical, &g.rows, ncols, schema_expected, hydrate || !dict)?;
    let nonempty = g.rows.iter().filter(|r| **r > 0).count();
    if decoded > nonempty {
        c.class("flight:split");
    }
    if decoded >= 2 && g.odd_slice && (interesting_type(&sch) || wo.nondefault() || max.is_some() || !hydrate) {
        c.nontrivial();
    }
    Ok(())
}

// ------------------------------------------------------------------------------------------------
// dictionary histories (hand-built dictionary arrays)
#[derive(Clone, Copy, Debug, PartialEq)]
enum Wrap {
    None,
    List,
    Struct,
}

struct HCol {
    kbits: u8,
    ksigned: bool,
    vty: LType,
    wrap: Wrap,
    /// current dictionary (logical values, distinct) and its values array
    dict: Vec<LValue>,
    values: ArrayRef,
    counter: u64,
}

fn fresh_value(col: &mut HCol, t: &mut Tape) -> LValue {
    col.counter += 1;
    let k = col.counter;
    if !col.dict.contains(&LValue::Null) && t.chance(16) {
        return LValue::Null;
    }
    match &col.vty {
        LType::Utf8(_) => LValue::Str(if k % 3 == 0 { format!("value-{:04}-longer-than-twelve", k) } else { format!("v{}", k) }),
        LType::Binary(_) => LValue::Bytes(format!("b{}", k).into_bytes()),
        _ => LValue::Int(k as i128 * 7 - 3),
    }
}

fn make_values(vty: &LType, dict: &[LValue]) -> ArrayRef {
    realise(&mut Tape::new(vec![]), vty, dict, true, &Lay::plain())
}

fn dict_ltype(col: &HCol) -> LType {
    LType::Dict { kbits: col.kbits, ksigned: col.ksigned, value: Box::new(col.vty.clone()) }
}
fn col_ltype(col: &HCol) -> LType {
    let d = dict_ltype(col);
    match col.wrap {
        Wrap::None => d,
        Wrap::List => LType::List(Box::new(LField::new("item", d, true)), ListEnc::O32),
        Wrap::Struct => LType::Struct(vec![LField::new("d", d, true), LField::new("n", LType::Int { bits: 32, signed: true }, true)]),
    }
}

fn mk_dict<K: ArrowDictionaryKeyType>(keys: &[Option<usize>], values: ArrayRef) -> ArrayRef {
    let k: PrimitiveArray<K> = keys.iter().map(|k| k.map(|x| K::Native::from_usize(x).expect("key fits"))).collect();
    Arc::new(DictionaryArray::<K>::try_new(k, values).expect("valid dictionary"))
}

fn dict_array(col: &HCol, keys: &[Option<usize>]) -> ArrayRef {
    let v = col.values.clone();
    match (col.kbits, col.ksigned) {
        (8, true) => mk_dict::<Int8Type>(keys, v),
        (8, false) => mk_dict::<UInt8Type>(keys, v),
        (16, true) => mk_dict::<Int16Type>(keys, v),
        (16, false) => mk_dict::<UInt16Type>(keys, v),
        (32, true) => mk_dict::<Int32Type>(keys, v),
        (32, false) => mk_dict::<UInt32Type>(keys, v),
        (64, true) => mk_dict::<Int64Type>(keys, v),
        _ => mk_dict::<UInt64Type>(keys, v),
    }
}

fn gen_key(t: &mut Tape, n: usize) -> Option<usize> {
    if n == 0 || t.chance(36) {
        None
    } else if t.chance(90) {
        Some(n - 1)
    } else {
        Some(t.below(n))
    }
}

fn denote(col: &HCol, k: Option<usize>) -> LValue {
    match k {
        None => LValue::Null,
        Some(i) => col.dict[i].clone(),
    }
}

/// one column of one batch: the array and its logical values
fn build_hcol(t: &mut Tape, col: &HCol, rows: usize) -> (ArrayRef, Vec<LValue>) {
    let n = col.dict.len();
    match col.wrap {
        Wrap::None => {
            let keys: Vec<Option<usize>> = (0..rows).map(|_| gen_key(t, n)).collect();
            let l = keys.iter().map(|k| denote(col, *k)).collect();
            (dict_array(col, &keys), l)
        }
        Wrap::Struct => {
            let keys: Vec<Option<usize>> = (0..rows).map(|_| gen_key(t, n)).collect();
            let ints: Vec<Option<i32>> = (0..rows).map(|i| if t.chance(40) { None } else { Some(i as i32 - 2) }).collect();
            let l = keys.iter().zip(&ints).map(|(k, i)| LValue::Struct(vec![denote(col, *k), i.map(|x| LValue::Int(x as i128)).unwrap_or(LValue::Null)])).collect();
            let DataType::Struct(fields) = col_ltype(col).arrow() else { unreachable!() };
            let arr = StructArray::try_new(fields, vec![dict_array(col, &keys), Arc::new(Int32Array::from(ints))], None).expect("struct");
            (Arc::new(arr), l)
        }
        Wrap::List => {
            let mut keys: Vec<Option<usize>> = vec![];
            let mut lens = vec![];
            let mut l = vec![];
            for _ in 0..rows {
                let m = t.below(4);
                let ks: Vec<Option<usize>> = (0..m).map(|_| gen_key(t, n)).collect();
                l.push(LValue::List(ks.iter().map(|k| denote(col, *k)).collect()));
                keys.extend(ks);
                lens.push(m);
            }
            let DataType::List(f) = col_ltype(col).arrow() else { unreachable!() };
            let arr = ListArray::try_new(f, OffsetBuffer::from_lengths(lens), dict_array(col, &keys), None).expect("list");
            (Arc::new(arr), l)
        }
    }
}

#[derive(Clone, Copy, Debug, PartialEq)]
enum Rel {
    New,
    Equal,
    /// the dictionary already written is a strict prefix of the new one ("delta" in DictionaryTracker)
    Prefix,
    Other,
}
fn rel(written: &Option<Vec<LValue>>, new: &[LValue]) -> Rel {
    match written {
        None => Rel::New,
        Some(w) if w.as_slice() == new => Rel::Equal,
        Some(w) if w.len() < new.len() && new[..w.len()] == w[..] => Rel::Prefix,
        Some(_) => Rel::Other,
    }
}

/// evolve the dictionary of `col` for the next batch; returns the label of the operation
fn evolve(t: &mut Tape, col: &mut HCol) -> &'static str {
    let cap = key_capacity(col.kbits, col.ksigned);
    let op = t.below(9);
    match op {
        0 | 1 => "same-arc",
        2 | 3 => {
            col.values = make_values(&col.vty, &col.dict);
            "equal-new-allocation"
        }
        4 | 5 => {
            let k = (1 + t.below(3)).min(cap - col.dict.len());
            for _ in 0..k {
                let v = fresh_value(col, t);
                col.dict.push(v);
            }
            col.values = make_values(&col.vty, &col.dict);
            if k == 0 { "equal-new-allocation" } else { "extended" }
        }
        6 | 7 => {
            if !col.dict.is_empty() && t.bool() {
                // same length, one value changed (the prefix before it stays equal)
                let i = if t.bool() { col.dict.len() - 1 } else { t.below(col.dict.len()) };
                loop {
                    let v = fresh_value(col, t);
                    if !v.is_null() || !col.dict.contains(&LValue::Null) {
                        col.dict[i] = v;
                        break;
                    }
                }
            } else {
                let n = (*t.pick(&[2usize, 1, 3, 0, 5])).min(cap);
                col.dict.clear();
                for _ in 0..n {
                    let v = fresh_value(col, t);
                    col.dict.push(v);
                }
            }
            col.values = make_values(&col.vty, &col.dict);
            "replaced"
        }
        _ => {
            if col.dict.is_empty() {
                col.values = make_values(&col.vty, &col.dict);
                return "equal-new-allocation";
            }
            let n = t.below(col.dict.len());
            col.dict.truncate(n);
            col.values = make_values(&col.vty, &col.dict);
            "shrunk"
        }
    }
}

struct HBatch {
    batch: RecordBatch,
    logical: LBatch,
    rows: usize,
    /// dictionary of every dictionary column when this batch was built
    dicts: Vec<Vec<LValue>>,
}

const REPLACEMENT_MSG: &str = "Dictionary replacement detected";

fn sub_history(c: &mut Case) -> CaseResult {
    let wo = gen_wopts(&mut c.tape, true);
    // reader-side choices first (bits of two bytes), data afterwards
    let rsel = c.tape.u8();
    let chunk = *c.tape.pick(&[7usize, 1, 64, 333]);
    let t = &mut c.tape;
    let ndict = 1 + t.below(2);
    let mut cols: Vec<HCol> = (0..ndict)
        .map(|_| {
            let (kbits, ksigned) = *t.pick(&[(32u8, true), (8, false), (8, true), (16, false), (64, true), (16, true), (32, false), (64, false)]);
            let vty = t.pick(&[LType::Utf8(Enc::O32), LType::Int { bits: 64, signed: true }, LType::Utf8(Enc::View), LType::Utf8(Enc::O64), LType::Binary(Enc::O32)]).clone();
            let wrap = *t.pick(&[Wrap::None, Wrap::None, Wrap::List, Wrap::Struct]);
            let values = make_values(&vty, &[]);
            HCol { kbits, ksigned, vty, wrap, dict: vec![], values, counter: 0 }
        })
        .collect();
    let plain_col = t.chance(100);
    let mut lfields: Vec<LField> = cols.iter().enumerate().map(|(i, col)| LField::new(&format!("d{}", i), col_ltype(col), true)).collect();
    if plain_col {
        lfields.push(LField::new("n", LType::Int { bits: 32, signed: true }, true));
    }
    let schema = schema_of(&lfields, None);
    // initial dictionaries
    let mut at_capacity = false;
    for col in cols.iter_mut() {
        let cap = key_capacity(col.kbits, col.ksigned);
        let n = if col.kbits == 8 && t.chance(90) {
            at_capacity = true;
            cap - t.below(3)
        } else {
            *t.pick(&[2usize, 0, 1, 3, 5])
        };
        for _ in 0..n {
            let v = fresh_value(col, t);
            col.dict.push(v);
        }
        col.values = make_values(&col.vty, &col.dict);
    }
    let n = 1 + t.below(6);
    let mut hist: Vec<HBatch> = vec![];
    let mut ops: Vec<Vec<&'static str>> = vec![];
    for bi in 0..n {
        let mut o = vec![];
        if bi > 0 {
            for col in cols.iter_mut() {
                o.push(evolve(t, col));
            }
        }
        let rows = match t.below(8) {
            0 => 0,
            _ => 1 + t.below(8),
        };
        let mut arrays: Vec<ArrayRef> = vec![];
        let mut logical: LBatch = vec![];
        for col in &cols {
            let (a, l) = build_hcol(t, col, rows);
            arrays.push(a);
            logical.push(l);
        }
        if plain_col {
            let v: Vec<Option<i32>> = (0..rows).map(|i| if i % 3 == 2 { None } else { Some(i as i32 * 3 + bi as i32) }).collect();
            logical.push(v.iter().map(|x| x.map(|y| LValue::Int(y as i128)).unwrap_or(LValue::Null)).collect());
            arrays.push(Arc::new(Int32Array::from(v)));
        }
        let batch = RecordBatch::try_new_with_options(schema.clone(), arrays, &RecordBatchOptions::new().with_row_count(Some(rows))).map_err(|e| Fail::new("history:harness", e.to_string()))?;
        hist.push(HBatch { batch, logical, rows, dicts: cols.iter().map(|c| c.dict.clone()).collect() });
        ops.push(o);
    }
    let sizes: Vec<Vec<usize>> = hist.iter().map(|h| h.dicts.iter().map(|d| d.len()).collect()).collect();
    c.describe(json!({"sub": "dictionary_history", "fields": schema.fields().iter().map(|f| format!("{}: {}", f.name(), f.data_type())).collect::<Vec<_>>(),
        "ops": ops, "dict_sizes": sizes, "rows": hist.iter().map(|h| h.rows).collect::<Vec<_>>(), "opts": wo.json()}));
    wo.classes(c);
    for o in ops.iter().flatten() {
        c.class(format!("evolution:{}", o));
    }
    for col in &cols {
        c.class(format!("wrap:{:?}", col.wrap));
        c.class(format!("keys:{}{}", if col.ksigned { "i" } else { "u" }, col.kbits));
        c.class(format!("values:{}", kind(&col.vty)));
    }
    if at_capacity {
        c.class("keys:8-bit-near-capacity");
    }
    c.class(format!("batches:{}", n.min(3)));

    // ---- FileWriter: expected-error oracle from the DictionaryTracker documentation
    let opts = wo.build()?;
    let mut written: Vec<Option<Vec<LValue>>> = vec![None; cols.len()];
    let mut accepted = 0;
    let mut changed = false;
    let mut w = no_panic("history:file:new", || FileWriter::try_new_with_options(Vec::new(), &schema, opts.clone()))?.map_err(|e| arrow_err("history:file:new-err", "FileWriter::try_new_with_options", e))?;
    for (bi, h) in hist.iter().enumerate() {
        let rels: Vec<Rel> = h.dicts.iter().zip(&written).map(|(d, wr)| rel(wr, d)).collect();
        let must_reject = rels.iter().any(|r| *r == Rel::Other || (*r == Rel::Prefix && !wo.delta));
        let must_accept = !must_reject;
        if rels.iter().any(|r| matches!(r, Rel::Prefix | Rel::Other)) {
            changed = true;
        }
        let r = no_panic("history:file:write", || w.write(&h.batch))?;
        match r {
            Ok(()) => {
                if must_reject {
                    let why = if rels.contains(&Rel::Other) { "replaced" } else { "extended under Resend" };
                    fail!(format!("history:file:accepted-{}", if rels.contains(&Rel::Other) { "replacement" } else { "extension-under-resend" }), "batch {}: FileWriter accepted a {} dictionary (relations {:?})", bi, why, rels);
                }
                for (wr, (d, r)) in written.iter_mut().zip(h.dicts.iter().zip(&rels)) {
                    if *r != Rel::Equal {
                        *wr = Some(d.clone());
                    }
                }
                if rels.contains(&Rel::Prefix) {
                    c.class("file:accepted-delta");
                }
                accepted += 1;
            }
            Err(e) => {
                ensure!(!must_accept, "history:file:rejected", "batch {}: FileWriter rejected a batch whose dictionaries are {:?} w.r.t. what was written (delta handling: {}): {}", bi, rels, wo.delta, e);
                ensure!(e.to_string().contains(REPLACEMENT_MSG), "history:file:other-error", "batch {}: expected the documented dictionary replacement error, got: {}", bi, e);
                c.class(if rels.contains(&Rel::Other) { "file:rejected-replacement" } else { "file:rejected-extension-under-resend" });
                break;
            }
        }
    }
    // the accepted prefix must be readable
    no_panic("history:file:finish", || w.finish())?.map_err(|e| arrow_err("history:file:finish-err", "FileWriter::finish", e))?;
    let bytes = no_panic("history:file:into_inner", || w.into_inner())?.map_err(|e| arrow_err("history:file:finish-err", "FileWriter::into_inner", e))?;
    let want: Vec<LBatch> = hist[..accepted].iter().map(|h| h.logical.clone()).collect();
    let rows: Vec<usize> = hist[..accepted].iter().map(|h| h.rows).collect();
    let got: Vec<RecordBatch> = if rsel & 1 == 0 {
        let rd = no_panic("history:file:open", || FileReader::try_new(Cursor::new(&bytes), None))?.map_err(|e| arrow_err("history:file:open-err", "FileReader::try_new", e))?;
        no_panic("history:file:read", || rd.collect::<Result<Vec<_>, _>>())?.map_err(|e| arrow_err("history:file:read-err", "FileReader", e))?
    } else {
        no_panic("history:file:decoder", || read_file_decoder(&bytes, None, false))?.map_err(|e| arrow_err("history:file:read-err", "FileDecoder", e))?.1
    };
    check_all("history:file", &got, &schema, &want, &rows)?;
    c.evals(1 + accepted as u64);

    // ---- stream writers accept every history
    let want: Vec<LBatch> = hist.iter().map(|h| h.logical.clone()).collect();
    let rows: Vec<usize> = hist.iter().map(|h| h.rows).collect();
    let batches: Vec<RecordBatch> = hist.iter().map(|h| h.batch.clone()).collect();
    for encoder in [false, true] {
        let what = if encoder { "history:encoder" } else { "history:stream" };
        let bytes = no_panic(&format!("{}:write", what), || write_stream(&schema, &batches, opts.clone(), encoder))?.map_err(|e| arrow_err(&format!("{}:rejected", what), "stream writers accept every dictionary history", e))?;
        let got: Vec<RecordBatch> = if (rsel >> (1 + usize::from(encoder))) & 1 == 0 {
            let rd = no_panic(&format!("{}:open", what), || StreamReader::try_new(bytes.as_slice(), None))?.map_err(|e| arrow_err(&format!("{}:open-err", what), "StreamReader::try_new", e))?;
            no_panic(&format!("{}:read", what), || rd.collect::<Result<Vec<_>, _>>())?.map_err(|e| arrow_err(&format!("{}:read-err", what), "StreamReader", e))?
        } else {
            let chunks: Vec<usize> = if rsel & 8 == 0 { vec![chunk] } else { vec![] };
            no_panic(&format!("{}:decoder", what), || read_stream_decoder(&bytes, &chunks, false))?.map_err(|e| arrow_err(&format!("{}:read-err", what), "StreamDecoder", e))?.1
        };
        check_all(what, &got, &schema, &want, &rows)?;
        c.evals(1);
    }
    // ---- Flight with DictionaryHandling::Resend ("a new dictionary batch will be sent each time ...")
    let fo = WOpts { delta: false, ..wo.clone() }.build()?;
    let cfg = FlightCfg { max: if rsel & 16 == 0 { None } else { Some(1) }, hydrate: false, with_schema: rsel & 32 == 0 };
    let (_, fd) = no_panic("history:flight:encode", || flight_encode(&schema, &batches, &cfg, fo))?;
    let fd = fd.map_err(|e| Fail::new("history:flight:rejected", format!("Flight Resend rejected a dictionary history: {}", e)))?;
    let st = FlightRecordBatchStream::new_from_flight_data(flight_stream(&fd));
    let got: Vec<RecordBatch> = no_panic("history:flight:decode", || futures::executor::block_on(st.try_collect::<Vec<_>>()))?.map_err(|e| arrow_err("history:flight:decode-err", "FlightRecordBatchStream", e))?;
    check_concat("history:flight", &got, &schema, &want, &rows, lfields.len())?;
    c.evals(1);
    if n >= 2 && changed {
        c.nontrivial();
    }
    Ok(())
}

// ------------------------------------------------------------------------------------------------
// enumerated type grid
fn rep_types() -> Vec<LType> {
    let i32t = || LType::Int { bits: 32, signed: true };
    let lf = |n: &str, t: LType| LField::new(n, t, true);
    let mut v: Vec<LType> = vec![LType::Null, LType::Bool];
    for b in [8u8, 16, 32, 64] {
        v.push(LType::Int { bits: b, signed: true });
        v.push(LType::Int { bits: b, signed: false });
    }
    v.extend([LType::F16, LType::F32, LType::F64]);
    for w in [32u16, 64, 128, 256] {
        v.push(LType::Decimal { width: w, p: 7, s: 2 });
    }
    v.push(LType::Decimal { width: 128, p: 38, s: -3 });
    v.push(LType::Decimal { width: 256, p: 76, s: 10 });
    v.extend([LType::Date32, LType::Date64, LType::Time32(Unit::S), LType::Time32(Unit::Ms), LType::Time64(Unit::Us), LType::Time64(Unit::Ns)]);
    for u in [Unit::S, Unit::Ms, Unit::Us, Unit::Ns] {
        v.push(LType::Timestamp(u.clone(), None));
        v.push(LType::Timestamp(u.clone(), Some("+05:30".into())));
        v.push(LType::Duration(u));
    }
    v.extend([LType::IntervalYM, LType::IntervalDT, LType::IntervalMDN]);
    for e in [Enc::O32, Enc::O64, Enc::View] {
        v.push(LType::Utf8(e));
        v.push(LType::Binary(e));
    }
    v.extend([LType::FixedBinary(4), LType::FixedBinary(0)]);
    let d = LType::Dict { kbits: 16, ksigned: true, value: Box::new(LType::Utf8(Enc::O32)) };
    let ree = LType::Ree { rbits: 32, value: Box::new(lf("values", i32t())) };
    for inner in [i32t(), LType::Utf8(Enc::View), d.clone(), ree.clone()] {
        for e in [ListEnc::O32, ListEnc::O64, ListEnc::V32, ListEnc::V64] {
            v.push(LType::List(Box::new(lf("item", inner.clone())), e));
        }
        v.push(LType::FixedList(Box::new(lf("item", inner.clone())), 2));
        v.push(LType::Struct(vec![lf("a", inner.clone()), lf("b", LType::Bool)]));
        v.push(LType::Map { key: Box::new(LField::new("key", LType::Utf8(Enc::O32), false)), val: Box::new(lf("value", inner.clone())), sorted: false });
        for dense in [false, true] {
            v.push(LType::Union { dense, fields: vec![(0, lf("a", inner.clone())), (3, lf("b", LType::Utf8(Enc::O32)))] });
        }
    }
    v.push(LType::FixedList(Box::new(lf("item", i32t())), 0));
    for (kb, ks) in [(8u8, true), (8, false), (16, true), (16, false), (32, true), (32, false), (64, true), (64, false)] {
        v.push(LType::Dict { kbits: kb, ksigned: ks, value: Box::new(LType::Utf8(Enc::O32)) });
    }
    for val in [LType::Utf8(Enc::View), LType::Utf8(Enc::O64), LType::Binary(Enc::O32), i32t(), LType::F64, LType::Decimal { width: 128, p: 7, s: 2 }, LType::FixedBinary(3), LType::Timestamp(Unit::Ms, Some("UTC".into())), LType::Date32] {
        v.push(LType::Dict { kbits: 32, ksigned: true, value: Box::new(val) });
    }
    for rb in [16u8, 32, 64] {
        v.push(LType::Ree { rbits: rb, value: Box::new(lf("values", LType::Utf8(Enc::O32))) });
    }
    v.push(LType::Ree { rbits: 32, value: Box::new(lf("values", d.clone())) });
    v
}

const GRID_CFGS: usize = 10;

fn sub_type_grid(c: &mut Case) -> CaseResult {
    let _ = c.tape.bytes(8);
    let reps = rep_types();
    let idx = c.index as usize;
    if idx >= reps.len() * GRID_CFGS {
        return outside_grid(c, idx - reps.len() * GRID_CFGS);
    }
    let ty = reps[idx / GRID_CFGS].clone();
    let cfg = idx % GRID_CFGS;
    // every kind of the committed grid has a representative (checked once, at index 0)
    if idx == 0 {
        for k in &grid().ipc {
            ensure!(reps.iter().any(|t| has_kind(t, k)), "grid:unrepresented", "grid kind {} has no representative type", k);
        }
    }
    ensure!(in_ipc_grid(&ty), "grid:representative-outside", "representative {} is not inside the committed grid", ty.arrow());
    let (wo, what) = match cfg {
        0 => (WOpts::default_opts(), "file"),
        1 => (WOpts { align: 8, ..WOpts::default_opts() }, "stream"),
        2 => (WOpts { align: 16, ..WOpts::default_opts() }, "encoder"),
        3 => (WOpts { v4: true, ..WOpts::default_opts() }, "file"),
        4 => (WOpts { v4: true, align: 8, ..WOpts::default_opts() }, "stream"),
        5 => (WOpts { v4: true, legacy: true, align: 32, ..WOpts::default_opts() }, "stream"),
        6 => (WOpts { comp: 1, ..WOpts::default_opts() }, "file"),
        7 => (WOpts { comp: 2, align: 8, ..WOpts::default_opts() }, "stream"),
        8 => (WOpts::default_opts(), "flight-hydrate"),
        _ => (WOpts { align: 8, ..WOpts::default_opts() }, "flight-resend"),
    };
    c.class(format!("kind:{}", kind(&ty)));
    c.class(format!("cfg:{}{}", what, if wo.v4 { "-V4" } else { "" }));
    if wo.v4 && has_kind(&ty, "RunEndEncoded") && !c.strict {
        c.exclude("ree-v4");
        return Ok(());
    }
    let flight = what.starts_with("flight");
    if what == "flight-hydrate" && !flight_hydrate_ok(&ty, true) {
        c.class("flight-hydrate:outside-grid");
        return Ok(());
    }
    let mut f = LField::new("c0", ty.clone(), true);
    if flight && matches!(ty, LType::Union { .. }) && !c.strict {
        c.exclude("flight-union-nullable");
        f.nullable = false;
    }
    if flight && nested_union(&ty) && !c.strict {
        c.exclude("flight-union-nullable");
        return Ok(());
    }
    if union_below_list(&ty, false) && !c.strict {
        c.exclude("list-union-slice");
        return Ok(());
    }
    let sch = Sch { schema: schema_of(std::slice::from_ref(&f), None), fields: vec![f] };
    let g = gen_batches(&mut c.tape, &sch, 3, true, &Lay::fancy())?;
    c.describe(json!({"sub": "type_grid", "type": ty.arrow().to_string(), "cfg": what, "opts": wo.json(), "rows": g.rows}));
    if skip_ree_empty_slice(c, &sch, &g) {
        return Ok(());
    }
    let opts = wo.build()?;
    match what {
        "file" => {
            let bytes = no_panic("grid:file:write", || write_file(&sch.schema, &g.batches, opts, &HashMap::new()))?.map_err(|e| arrow_err("grid:file:rejected", "FileWriter rejected a type of the committed grid", e))?;
            let rd = no_panic("grid:file:open", || FileReader::try_new(Cursor::new(&bytes), None))?.map_err(|e| arrow_err("grid:file:open-err", "FileReader::try_new", e))?;
            check_schema("grid:file", rd.schema().as_ref(), &sch.schema)?;
            let got = no_panic("grid:file:read", || rd.collect::<Result<Vec<_>, _>>())?.map_err(|e| arrow_err("grid:file:read-err", "FileReader", e))?;
            check_all("grid:file", &got, &sch.schema, &g.logical, &g.rows)?;
        }
        "stream" | "encoder" => {
            let bytes = no_panic("grid:stream:write", || write_stream(&sch.schema, &g.batches, opts, what == "encoder"))?.map_err(|e| arrow_err("grid:stream:rejected", "stream writer rejected a type of the committed grid", e))?;
            let rd = no_panic("grid:stream:open", || StreamReader::try_new(bytes.as_slice(), None))?.map_err(|e| arrow_err("grid:stream:open-err", "StreamReader::try_new", e))?;
            check_schema("grid:stream", rd.schema().as_ref(), &sch.schema)?;
            let got = no_panic("grid:stream:read", || rd.collect::<Result<Vec<_>, _>>())?.map_err(|e| arrow_err("grid:stream:read-err", "StreamReader", e))?;
            check_all("grid:stream", &got, &sch.schema, &g.logical, &g.rows)?;
            let (_, got2) = no_panic("grid:stream:decoder", || read_stream_decoder(&bytes, &[], false))?.map_err(|e| arrow_err("grid:stream:decoder-err", "StreamDecoder", e))?;
            check_all("grid:stream-decoder", &got2, &sch.schema, &g.logical, &g.rows)?;
        }
        _ => {
            let hydrate = what == "flight-hydrate";
            let cfg = FlightCfg { max: None, hydrate, with_schema: true };
            let expected = if hydrate { hydrate_schema(&sch.schema) } else { sch.schema.as_ref().clone() };
            let (known, fd) = no_panic("grid:flight:encode", || flight_encode(&sch.schema, &g.batches, &cfg, opts))?;
            let fd = fd.map_err(|e| Fail::new("grid:flight:rejected", format!("FlightDataEncoder rejected a type of the committed grid: {}", e)))?;
            if let Some(k) = known {
                check_schema("grid:flight:known_schema", k.as_ref(), &expected)?;
            }
            verify_flight(c, &fd, &expected, &g.logical, &g.rows, 1, true, hydrate || !has_dict(&ty))?;
        }
    }
    c.nontrivial();
    c.evals(1);
    Ok(())
}

/// outside the grid: a dictionary whose values are a dictionary is documented as not encodable; all writers return Err
fn outside_grid(c: &mut Case, which: usize) -> CaseResult {
    let inner: DictionaryArray<Int8Type> = vec!["a", "b", "a"].into_iter().collect();
    let outer = DictionaryArray::<Int8Type>::try_new(Int8Array::from(vec![0, 2, 1, 0]), Arc::new(inner)).map_err(|e| Fail::new("grid:harness", e.to_string()))?;
    let top = which % 2 == 0;
    let (field, array): (Field, ArrayRef) = if top {
        (Field::new("dd", outer.data_type().clone(), true), Arc::new(outer))
    } else {
        let item = Arc::new(Field::new("item", outer.data_type().clone(), true));
        let l = ListArray::try_new(item.clone(), OffsetBuffer::from_lengths([1, 3]), Arc::new(outer), None).map_err(|e| Fail::new("grid:harness", e.to_string()))?;
        (Field::new("l", DataType::List(item), true), Arc::new(l))
    };
    let schema = Arc::new(Schema::new(vec![field]));
    let batch = RecordBatch::try_new(schema.clone(), vec![array]).map_err(|e| Fail::new("grid:harness", e.to_string()))?;
    c.class("outside:dictionary-of-dictionary");
    c.describe(json!({"sub": "type_grid", "outside": schema.field(0).data_type().to_string()}));
    let r = match which / 2 {
        0 => no_panic("grid:outside:file", || write_file(&schema, std::slice::from_ref(&batch), IpcWriteOptions::default(), &HashMap::new()).map(|_| ()))?,
        1 => no_panic("grid:outside:stream", || write_stream(&schema, std::slice::from_ref(&batch), IpcWriteOptions::default(), false).map(|_| ()))?,
        _ => no_panic("grid:outside:encoder", || write_stream(&schema, std::slice::from_ref(&batch), IpcWriteOptions::default(), true).map(|_| ()))?,
    };
    ensure!(r.is_err(), "grid:outside:accepted", "a writer accepted a direct dictionary-of-dictionary column, documented as not encodable");
    c.evals(1);
    Ok(())
}

// ------------------------------------------------------------------------------------------------
// reproductions of the findings the generators avoid (run only through known_findings.json / --replay; 0 generated cases)

/// run-end encoded column + metadata V4: the writer emits a validity buffer for the run-end node, the reader does not expect it
fn repro_ree_v4(c: &mut Case) -> CaseResult {
    let run_ends = Int32Array::from(vec![2, 3, 5]);
    let values = Int32Array::from(vec![Some(7), None, Some(9)]);
    let ree = RunArray::<Int32Type>::try_new(&run_ends, &values).map_err(|e| Fail::new("repro:harness", e.to_string()))?;
    let schema = Arc::new(Schema::new(vec![Field::new("r", ree.data_type().clone(), true)]));
    let batch = RecordBatch::try_new(schema.clone(), vec![Arc::new(ree)]).map_err(|e| Fail::new("repro:harness", e.to_string()))?;
    let want: LBatch = vec![[7, 7].iter().map(|x| LValue::Int(*x)).chain([LValue::Null]).chain([9, 9].iter().map(|x| LValue::Int(*x))).collect()];
    c.describe(json!({"sub": "repro_ree_v4", "type": schema.field(0).data_type().to_string(), "metadata_version": "V4"}));
    let opts = IpcWriteOptions::try_new(8, false, MetadataVersion::V4).map_err(|e| Fail::new("repro:harness", e.to_string()))?;
    let bytes = no_panic("ree-v4:write", || write_stream(&schema, std::slice::from_ref(&batch), opts, false))?;
    let bytes = match bytes {
        // a writer that documents and rejects the combination would be fine
        Err(_) => return Ok(()),
        Ok(b) => b,
    };
    let rd = no_panic("ree-v4:open", || StreamReader::try_new(bytes.as_slice(), None))?.map_err(|e| arrow_err("ree-v4:open-err", "StreamReader::try_new", e))?;
    let got = no_panic("ree-v4:read", || rd.collect::<Result<Vec<_>, _>>())?.map_err(|e| arrow_err("ree-v4:read-err", "a stream accepted by StreamWriter (RunEndEncoded, metadata V4) cannot be read back", e))?;
    check_all("ree-v4", &got, &schema, &[want], &[5])?;
    c.evals(1);
    Ok(())
}

/// zero-length slice of a run-end encoded array: written with one run end of 0
fn repro_ree_empty_slice(c: &mut Case) -> CaseResult {
    let run_ends = Int32Array::from(vec![2, 3, 5]);
    let values = Int32Array::from(vec![Some(7), None, Some(9)]);
    let ree = RunArray::<Int32Type>::try_new(&run_ends, &values).map_err(|e| Fail::new("repro:harness", e.to_string()))?;
    let empty = ree.slice(1, 0);
    let schema = Arc::new(Schema::new(vec![Field::new("r", ree.data_type().clone(), true)]));
    let batch = RecordBatch::try_new(schema.clone(), vec![Arc::new(empty)]).map_err(|e| Fail::new("repro:harness", e.to_string()))?;
    c.describe(json!({"sub": "repro_ree_empty_slice", "array": "RunArray [2,3,5].slice(1, 0)"}));
    let bytes = no_panic("ree-empty-slice:write", || write_stream(&schema, std::slice::from_ref(&batch), IpcWriteOptions::default(), false))?.map_err(|e| arrow_err("ree-empty-slice:write-err", "StreamWriter", e))?;
    let rd = no_panic("ree-empty-slice:open", || StreamReader::try_new(bytes.as_slice(), None))?.map_err(|e| arrow_err("ree-empty-slice:open-err", "StreamReader::try_new", e))?;
    let got = no_panic("ree-empty-slice:read", || rd.collect::<Result<Vec<_>, _>>())?.map_err(|e| arrow_err("ree-empty-slice:read-err", "a zero-length run-end encoded column accepted by StreamWriter cannot be read back", e))?;
    check_all("ree-empty-slice", &got, &schema, &[vec![vec![]]], &[0])?;
    c.evals(1);
    Ok(())
}

/// List<DenseUnion> sliced so that the child range starts after 0: the union child is written without the slice applied
fn repro_list_union(c: &mut Case) -> CaseResult {
    let dense = !c.tape.bool();
    let uf = UnionFields::try_new([0i8, 1], [Field::new("a", DataType::Int32, true), Field::new("b", DataType::Utf8, true)]).map_err(|e| Fail::new("repro:harness", e.to_string()))?;
    // union rows: a=10, b="x", a=20, b="y"
    let u = if dense {
        UnionArray::try_new(uf, vec![0i8, 1, 0, 1].into(), Some(vec![0i32, 0, 1, 1].into()), vec![Arc::new(Int32Array::from(vec![10, 20])), Arc::new(StringArray::from(vec!["x", "y"]))])
    } else {
        UnionArray::try_new(uf, vec![0i8, 1, 0, 1].into(), None, vec![Arc::new(Int32Array::from(vec![Some(10), None, Some(20), None])), Arc::new(StringArray::from(vec![None, Some("x"), None, Some("y")]))])
    }
    .map_err(|e| Fail::new("repro:harness", e.to_string()))?;
    let item = Arc::new(Field::new("item", u.data_type().clone(), true));
    let list = ListArray::try_new(item.clone(), OffsetBuffer::from_lengths([1, 2, 1]), Arc::new(u), None).map_err(|e| Fail::new("repro:harness", e.to_string()))?;
    let sliced = list.slice(1, 2);
    let want_col = no_panic("repro:extract", || extract(&sliced))?;
    let schema = Arc::new(Schema::new(vec![Field::new("l", DataType::List(item), true)]));
    let batch = RecordBatch::try_new(schema.clone(), vec![Arc::new(sliced)]).map_err(|e| Fail::new("repro:harness", e.to_string()))?;
    c.describe(json!({"sub": "repro_list_union", "dense": dense, "array": "List<Union>[[a=10],[b=x,a=20],[b=y]].slice(1,2)", "want": short_vec(&want_col)}));
    let bytes = no_panic("list-union:write", || write_stream(&schema, std::slice::from_ref(&batch), IpcWriteOptions::default(), false))?.map_err(|e| arrow_err("list-union:write-err", "StreamWriter", e))?;
    let rd = no_panic("list-union:open", || StreamReader::try_new(bytes.as_slice(), None))?.map_err(|e| arrow_err("list-union:open-err", "StreamReader::try_new", e))?;
    let got = no_panic("list-union:read", || rd.collect::<Result<Vec<_>, _>>())?.map_err(|e| arrow_err("list-union:read-err", "a sliced List<Union> column accepted by StreamWriter cannot be read back", e))?;
    check_all("list-union", &got, &schema, &[vec![want_col]], &[2])?;
    c.evals(1);
    Ok(())
}

/// StreamDecoder with the default require_alignment(false) ("will automatically allocate a new aligned buffer") panics on a
/// dense union when the pushed buffer starts at an odd address
fn repro_decoder_union_align(c: &mut Case) -> CaseResult {
    let uf = UnionFields::try_new([0i8, 1], [Field::new("a", DataType::Int32, true), Field::new("b", DataType::Utf8, true)]).map_err(|e| Fail::new("repro:harness", e.to_string()))?;
    let u = UnionArray::try_new(uf, vec![0i8, 1, 0].into(), Some(vec![0i32, 0, 1].into()), vec![Arc::new(Int32Array::from(vec![10, 20])), Arc::new(StringArray::from(vec!["x"]))]).map_err(|e| Fail::new("repro:harness", e.to_string()))?;
    let want = no_panic("repro:extract", || extract(&u))?;
    let schema = Arc::new(Schema::new(vec![Field::new("u", u.data_type().clone(), false)]));
    let batch = RecordBatch::try_new(schema.clone(), vec![Arc::new(u)]).map_err(|e| Fail::new("repro:harness", e.to_string()))?;
    c.describe(json!({"sub": "repro_decoder_union_align", "type": schema.field(0).data_type().to_string(), "input": "whole stream in one Buffer whose start is 1 byte after a 64-byte boundary"}));
    let bytes = no_panic("decoder-union-align:write", || write_stream(&schema, std::slice::from_ref(&batch), IpcWriteOptions::default(), false))?.map_err(|e| arrow_err("decoder-union-align:write-err", "StreamWriter", e))?;
    let mut padded = vec![0u8];
    padded.extend_from_slice(&bytes);
    let mut buf = aligned_buffer(&padded).slice(1);
    let mut dec = StreamDecoder::new();
    let got = no_panic("decoder-union-align:decode", || -> Result<Vec<RecordBatch>, ArrowError> {
        let mut out = vec![];
        while !buf.is_empty() {
            if let Some(b) = dec.decode(&mut buf)? {
                out.push(b);
            }
        }
        dec.finish()?;
        Ok(out)
    })?
    .map_err(|e| arrow_err("decoder-union-align:decode-err", "StreamDecoder", e))?;
    check_all("decoder-union-align", &got, &schema, &[vec![want]], &[3])?;
    c.evals(1);
    Ok(())
}

/// Hydrate of FixedSizeList(0)<Dictionary>: arrow_cast::cast returns a list of the wrong length, the encoder reports Err
fn repro_hydrate_fsl0(c: &mut Case) -> CaseResult {
    let d: DictionaryArray<Int16Type> = Vec::<&str>::new().into_iter().collect();
    let item = Arc::new(Field::new("item", d.data_type().clone(), true));
    let l = FixedSizeListArray::try_new_with_length(item.clone(), 0, Arc::new(d), None, 3).map_err(|e| Fail::new("repro:harness", e.to_string()))?;
    let schema = Arc::new(Schema::new(vec![Field::new("l", DataType::FixedSizeList(item, 0), false)]));
    let batch = RecordBatch::try_new(schema.clone(), vec![Arc::new(l)]).map_err(|e| Fail::new("repro:harness", e.to_string()))?;
    c.describe(json!({"sub": "repro_hydrate_fsl0", "type": schema.field(0).data_type().to_string(), "rows": 3}));
    let cfg = FlightCfg { max: None, hydrate: true, with_schema: false };
    let (_, fd) = no_panic("hydrate-fsl0:encode", || flight_encode(&schema, std::slice::from_ref(&batch), &cfg, IpcWriteOptions::default()))?;
    let fd = fd.map_err(|e| Fail::new("hydrate-fsl0:encode-err", format!("Hydrate cannot encode FixedSizeList(0)<Dictionary>: {}", e)))?;
    let want: LBatch = vec![vec![LValue::List(vec![]); 3]];
    verify_flight(c, &fd, &hydrate_schema(&schema), &[want], &[3], 1, true, true)?;
    Ok(())
}

/// Flight encoder rewrites union fields as non-nullable and drops their field metadata
fn repro_flight_union_nullable(c: &mut Case) -> CaseResult {
    let uf = UnionFields::try_new([0i8, 1], [Field::new("a", DataType::Int32, true), Field::new("b", DataType::Utf8, true)]).map_err(|e| Fail::new("repro:harness", e.to_string()))?;
    let u = UnionArray::try_new(uf.clone(), vec![0i8, 1, 0].into(), None, vec![Arc::new(Int32Array::from(vec![Some(1), None, None])), Arc::new(StringArray::from(vec![None, Some("x"), None]))]).map_err(|e| Fail::new("repro:harness", e.to_string()))?;
    let with_meta = c.tape.bool();
    let mut f = Field::new("u", u.data_type().clone(), true);
    if with_meta {
        f = Field::new("u", u.data_type().clone(), false).with_metadata(HashMap::from([("k".to_string(), "v".to_string())]));
    }
    let schema = Arc::new(Schema::new(vec![f]));
    let batch = RecordBatch::try_new(schema.clone(), vec![Arc::new(u)]).map_err(|e| Fail::new("repro:harness", e.to_string()))?;
    c.describe(json!({"sub": "repro_flight_union_nullable", "field": format!("{:?}", schema.field(0))}));
    let cfg = FlightCfg { max: None, hydrate: true, with_schema: true };
    let (known, fd) = no_panic("flight-union:encode", || flight_encode(&schema, std::slice::from_ref(&batch), &cfg, IpcWriteOptions::default()))?;
    let fd = fd.map_err(|e| Fail::new("flight-union:encode-err", e))?;
    if let Some(k) = known {
        check_schema("flight-union:known_schema", k.as_ref(), &schema)?;
    }
    let st = FlightRecordBatchStream::new_from_flight_data(flight_stream(&fd));
    let got: Vec<RecordBatch> = no_panic("flight-union:decode", || futures::executor::block_on(st.try_collect::<Vec<_>>()))?.map_err(|e| arrow_err("flight-union:decode-err", "FlightRecordBatchStream", e))?;
    for b in &got {
        check_schema("flight-union", b.schema().as_ref(), &schema)?;
    }
    c.evals(1);
    Ok(())
}

/// Hydrate cannot convert a dictionary below a dense union (or below a union that is not the top-level column type)
fn repro_flight_hydrate_union(c: &mut Case) -> CaseResult {
    let d: DictionaryArray<Int16Type> = vec!["a", "b"].into_iter().collect();
    let uf = UnionFields::try_new([0i8, 1], [Field::new("a", d.data_type().clone(), true), Field::new("b", DataType::Int32, true)]).map_err(|e| Fail::new("repro:harness", e.to_string()))?;
    let u = UnionArray::try_new(uf, vec![0i8, 1, 0].into(), Some(vec![0i32, 0, 1].into()), vec![Arc::new(d), Arc::new(Int32Array::from(vec![5]))]).map_err(|e| Fail::new("repro:harness", e.to_string()))?;
    let schema = Arc::new(Schema::new(vec![Field::new("u", u.data_type().clone(), false)]));
    let batch = RecordBatch::try_new(schema.clone(), vec![Arc::new(u)]).map_err(|e| Fail::new("repro:harness", e.to_string()))?;
    c.describe(json!({"sub": "repro_flight_hydrate_union", "type": schema.field(0).data_type().to_string()}));
    let cfg = FlightCfg { max: None, hydrate: true, with_schema: false };
    let (_, fd) = no_panic("flight-hydrate-union:encode", || flight_encode(&schema, std::slice::from_ref(&batch), &cfg, IpcWriteOptions::default()))?;
    let fd = fd.map_err(|e| Fail::new("flight-hydrate-union:encode-err", format!("Hydrate (the default) cannot encode a dense union with a dictionary child: {}", e)))?;
    let expected = hydrate_schema(&schema);
    let want: LBatch = vec![vec![LValue::Union(0, Box::new(LValue::Str("a".into()))), LValue::Union(1, Box::new(LValue::Int(5))), LValue::Union(0, Box::new(LValue::Str("b".into())))]];
    verify_flight(c, &fd, &expected, &[want], &[3], 1, true, true)?;
    Ok(())
}

fn main() {
    let grid_n = (rep_types().len() * GRID_CFGS + 6) as u64;
    Check::new(
        "C04",
        "exploration",
        "cases = (schema from the committed IPC type grid, 0-6 batches realised with sliced/offset/garbage-under-null layouts, write options, reader); non-trivial = >=2 batches, >=1 non-empty batch sliced at an offset that is not a multiple of 8, and a nested/dictionary/view/run-end/union column or a non-default option (dictionary_history: >=2 batches with a changed dictionary; flight: >=2 decoded batches; type_grid: every enumerated kind x configuration)",
    )
    .assume("logical equality is judged by vp_engine::extract (typed accessors; dictionary / run-end compared by denoted values, data types compared exactly)")
    .assume("FileWriter is only given batches whose dictionaries are identical across batches (ipc_file slices all batches from one realised batch when the schema contains a dictionary); dictionary evolution is exercised by dictionary_history with the documented accept/reject table")
    .assume("after a FileWriter::write error no further batch is written; the file finished afterwards must contain the accepted batches")
    .assume("every stream ends with the end-of-stream marker (StreamWriter::finish / StreamEncoder::finish); truncated streams belong to C14/C18")
    .assume("require_alignment(true) is only demanded for alignment 64, no body compression (a buffer stored uncompressed inside a compressed body sits 8 bytes after an aligned offset) and a 64-byte aligned input buffer")
    .assume("Flight: batch boundaries are free (empty batches are not transmitted, size limits split batches); IpcWriteOptions with DictionaryHandling::Delta are not passed to the Flight encoder (documented as unsupported); flight_data_to_batches is only used on streams without dictionary messages")
    .assume("known findings avoided by the generators (counted): run-end encoded columns with metadata V4; union fields declared nullable / with metadata / nested in Flight")
    .sub(Sub::new("type_grid", 0, 0, sub_type_grid).enumerate(grid_n, grid_n).require(&["outside:dictionary-of-dictionary", "kind:RunEndEncoded", "kind:DenseUnion", "kind:Dictionary"]))
    .sub(
        Sub::new("ipc_file", 6000, 240000, sub_file).tape(768, 12000).require(&[
            "family:dictionary", "family:runend", "family:union", "family:view", "family:listview", "family:list", "family:struct", "family:map", "family:fixedlist", "family:null", "family:bool",
            "family:decimal", "family:temporal", "family:interval", "family:bytes", "family:fixedbinary", "nested:Dictionary", "cols:0", "rows:0", "batches:0", "batches:3",
            "align:8", "align:16", "align:32", "align:64", "version:V4", "version:V4-legacy", "version:V5", "compression:lz4", "compression:zstd", "dict-handling:delta",
            "reader:set_index", "reader:FileDecoder", "reader:FileDecoder+require_alignment", "projection:subset", "projection:empty", "schema-metadata", "field-metadata", "mode:independent",
        ]),
    )
    .sub(
        Sub::new("ipc_stream", 6000, 240000, sub_stream).tape(768, 12000).require(&[
            "family:dictionary", "family:runend", "family:union", "family:view", "family:listview", "family:list", "family:struct", "family:map", "nested:Dictionary", "cols:0", "rows:0", "batches:0", "batches:3",
            "version:V4", "version:V4-legacy", "compression:lz4", "compression:zstd", "dict-handling:delta", "writer:StreamEncoder", "writer:StreamWriter",
            "reader:StreamReader", "reader:StreamReader-buffered", "reader:StreamDecoder", "reader:StreamDecoder-chunked", "reader:StreamDecoder+require_alignment", "projection:subset", "mode:independent", "mode:sliced-from-one",
        ]),
    )
    .sub(
        Sub::new("dictionary_history", 5000, 200000, sub_history).tape(256, 3000).require(&[
            "evolution:same-arc", "evolution:equal-new-allocation", "evolution:extended", "evolution:replaced", "evolution:shrunk", "file:accepted-delta", "file:rejected-replacement",
            "file:rejected-extension-under-resend", "keys:8-bit-near-capacity", "wrap:List", "wrap:Struct", "dict-handling:delta", "dict-handling:resend", "compression:lz4", "version:V4",
        ]),
    )
    .sub(
        Sub::new("flight", 4000, 160000, sub_flight).tape(768, 12000).require(&[
            "flight:hydrate", "flight:resend", "flight:hydrated-dictionary", "flight:resent-dictionary", "max_size:1", "max_size:64", "max_size:1024", "max_size:default", "flight:with_schema",
            "flight:schema-from-first-batch", "flight:split", "decoder:flight_data_to_batches", "family:union", "family:dictionary", "family:runend", "nested:Dictionary", "cols:0",
        ]),
    )
    .sub(Sub::new("repro_ree_v4", 0, 0, repro_ree_v4))
    .sub(Sub::new("repro_ree_empty_slice", 0, 0, repro_ree_empty_slice))
    .sub(Sub::new("repro_list_union", 0, 0, repro_list_union))
    .sub(Sub::new("repro_hydrate_fsl0", 0, 0, repro_hydrate_fsl0))
    .sub(Sub::new("repro_decoder_union_align", 0, 0, repro_decoder_union_align))
    .sub(Sub::new("repro_flight_union_nullable", 0, 0, repro_flight_union_nullable))
    .sub(Sub::new("repro_flight_hydrate_union", 0, 0, repro_flight_hydrate_union))
    // worker-subprocess isolation: an abort of the code under test (e.g. an absurd allocation after mis-framed input) is
    // attributed to the case in flight and reported as a violation instead of killing the check
    .run_isolated()
}
