//! C07 — Parquet statistics, page indexes and bloom filters never exclude present data.
//!
//! Ground truth is twofold and independent of every index under test: (1) the logical model of the written rows,
//! shredded by a small reference walk (entries / non-null leaf values per row), converted to the physical Parquet
//! representation by this file's own conversion, and (2) the pages themselves, read sequentially (no page index loaded)
//! through `SerializedFileReader::get_column_page_reader` and decoded one page at a time with `ColumnReaderImpl::read_records`
//! behind a one-page `PageReader` adaptor. (1) and (2) must agree; every statistic is then judged against them with the
//! reference comparators below (written from the Parquet spec, not taken from the crate).
//!
//! Sub-checks
//! * `arrow`     files written by `ArrowWriter` (flat and some nested columns over all sort orders, tiny pages)
//! * `lowlevel`  files written by `SerializedFileWriter` column writers: DECIMAL on BYTE_ARRAY with values of different
//!               byte lengths (sign extension), plain BYTE_ARRAY / UTF8 and unsigned INT32 columns
//! * `repro`     minimal reproductions of the reported findings (keys `C07-*`); judged only in replay / known-finding
//!               mode (`c.strict`), skipped otherwise
#[path = "../pq_gen.rs"]
mod pq_gen;

use arrow_array::{Array, ArrayRef, RecordBatch};
use arrow_schema::Field;
use bytes::Bytes;
use parquet::arrow::arrow_reader::statistics::StatisticsConverter;
use parquet::arrow::arrow_reader::{ArrowReaderMetadata, ArrowReaderOptions};
use parquet::basic::{BoundaryOrder, SortOrder, Type as Phys};
use parquet::bloom_filter::Sbbf;
use parquet::column::page::{Page, PageMetadata, PageReader};
use parquet::column::reader::ColumnReaderImpl;
use parquet::data_type::{BoolType, ByteArray, ByteArrayType, DataType as PqDataType, DoubleType, FixedLenByteArray, FixedLenByteArrayType, FloatType, Int32Type, Int64Type};
use parquet::file::metadata::{PageIndexPolicy, ParquetMetaData};
use parquet::file::page_index::column_index::ColumnIndexMetaData;
use parquet::file::properties::{EnabledStatistics, ReaderProperties, WriterProperties};
use parquet::file::reader::{FileReader, SerializedFileReader};
use parquet::file::serialized_reader::ReadOptionsBuilder;
use parquet::file::statistics::Statistics;
use parquet::file::writer::SerializedFileWriter;
use parquet::schema::parser::parse_message_type;
use parquet::schema::types::{ColumnDescPtr, SchemaDescriptor};
use pq_gen::*;
use serde_json::json;
use std::cmp::Ordering;
use std::collections::VecDeque;
use std::sync::Arc;
use vp_engine::batch::*;
use vp_engine::extract::extract;
use vp_engine::model::*;
use vp_engine::r#gen::*;
use vp_engine::realise::*;
use vp_engine::runner::*;
use vp_engine::tape::Tape;
use vp_engine::{ensure, fail};

// ------------------------------------------------------------------------------------------------
// physical values and reference orders

#[derive(Clone, Debug, PartialEq)]
enum PV {
    Bool(bool),
    I32(i32),
    I64(i64),
    F32(u32),
    F64(u64),
    Bytes(Vec<u8>),
}

impl PV {
    /// the bytes the writer feeds to the bloom filter hash (`AsBytes` of the physical value)
    fn hash_bytes(&self) -> Vec<u8> {
        match self {
            PV::Bool(b) => vec![*b as u8],
            PV::I32(v) => v.to_le_bytes().to_vec(),
            PV::I64(v) => v.to_le_bytes().to_vec(),
            PV::F32(v) => v.to_le_bytes().to_vec(),
            PV::F64(v) => v.to_le_bytes().to_vec(),
            PV::Bytes(b) => b.clone(),
        }
    }
}

/// reference sort orders (Parquet spec: LogicalTypes.md / parquet.thrift ColumnOrder)
#[derive(Clone, Copy, Debug, PartialEq)]
enum Ord_ {
    Bool,
    Signed,
    Unsigned,
    TotalF32,
    TotalF64,
    /// Float16: 2 bytes little endian, IEEE 754 total order
    TotalF16,
    /// two's complement big endian, compared as signed numbers after sign extension
    DecimalBE,
    /// unsigned byte-wise lexicographic
    UnsignedBytes,
    Undefined,
}

fn cmp_decimal_be(a: &[u8], b: &[u8]) -> Ordering {
    let n = a.len().max(b.len()).max(1);
    let ext = |x: &[u8]| -> Vec<u8> {
        let fill = if x.first().map(|b| b & 0x80 != 0).unwrap_or(false) { 0xffu8 } else { 0 };
        let mut v = vec![fill; n - x.len()];
        v.extend_from_slice(x);
        v
    };
    let (a, b) = (ext(a), ext(b));
    match (a[0] as i8).cmp(&(b[0] as i8)) {
        Ordering::Equal => a[1..].cmp(&b[1..]),
        o => o,
    }
}

fn ref_cmp(o: Ord_, a: &PV, b: &PV) -> Ordering {
    match (o, a, b) {
        (Ord_::Bool, PV::Bool(x), PV::Bool(y)) => x.cmp(y),
        (Ord_::Signed, PV::I32(x), PV::I32(y)) => x.cmp(y),
        (Ord_::Signed, PV::I64(x), PV::I64(y)) => x.cmp(y),
        (Ord_::Unsigned, PV::I32(x), PV::I32(y)) => (*x as u32).cmp(&(*y as u32)),
        (Ord_::Unsigned, PV::I64(x), PV::I64(y)) => (*x as u64).cmp(&(*y as u64)),
        (Ord_::TotalF32, PV::F32(x), PV::F32(y)) => total_cmp_bits(*x as u64, *y as u64, 32),
        (Ord_::TotalF64, PV::F64(x), PV::F64(y)) => total_cmp_bits(*x, *y, 64),
        (Ord_::TotalF16, PV::Bytes(x), PV::Bytes(y)) if x.len() == 2 && y.len() == 2 => {
            total_cmp_bits(u16::from_le_bytes([x[0], x[1]]) as u64, u16::from_le_bytes([y[0], y[1]]) as u64, 16)
        }
        (Ord_::DecimalBE, PV::Bytes(x), PV::Bytes(y)) => cmp_decimal_be(x, y),
        (Ord_::UnsignedBytes, PV::Bytes(x), PV::Bytes(y)) => x.cmp(y),
        _ => Ordering::Equal,
    }
}

fn is_nan(o: Ord_, v: &PV) -> bool {
    match (o, v) {
        (Ord_::TotalF32, PV::F32(x)) => f32::from_bits(*x).is_nan(),
        (Ord_::TotalF64, PV::F64(x)) => f64::from_bits(*x).is_nan(),
        (Ord_::TotalF16, PV::Bytes(x)) if x.len() == 2 => {
            let b = u16::from_le_bytes([x[0], x[1]]);
            (b & 0x7c00) == 0x7c00 && (b & 0x03ff) != 0
        }
        _ => false,
    }
}

fn declared(o: Ord_) -> SortOrder {
    match o {
        Ord_::Bool | Ord_::Unsigned | Ord_::UnsignedBytes => SortOrder::UNSIGNED,
        Ord_::Signed | Ord_::DecimalBE => SortOrder::SIGNED,
        Ord_::TotalF16 | Ord_::TotalF32 | Ord_::TotalF64 => SortOrder::TOTAL_ORDER,
        Ord_::Undefined => SortOrder::UNDEFINED,
    }
}

/// reference order of an Arrow leaf type stored with physical type `phys`
fn order_of(leaf: &LType, phys: Phys) -> Ord_ {
    use LType::*;
    match leaf.denoted() {
        Bool => Ord_::Bool,
        Int { signed: true, .. } => Ord_::Signed,
        Int { signed: false, .. } => Ord_::Unsigned,
        F16 => Ord_::TotalF16,
        F32 => Ord_::TotalF32,
        F64 => Ord_::TotalF64,
        Decimal { .. } => match phys {
            Phys::INT32 | Phys::INT64 => Ord_::Signed,
            _ => Ord_::DecimalBE,
        },
        Date32 | Date64 | Time32(_) | Time64(_) | Timestamp(..) | Duration(_) => Ord_::Signed,
        // Arrow Null is stored as INT32 annotated UNKNOWN: undefined order, always null
        Null => Ord_::Undefined,
        Utf8(_) | Binary(_) | FixedBinary(_) => Ord_::UnsignedBytes,
        IntervalYM | IntervalDT | IntervalMDN => Ord_::Undefined,
        _ => Ord_::Undefined,
    }
}

fn be_bytes_of_i128(v: i128, n: usize) -> Vec<u8> {
    let full = v.to_be_bytes();
    if n <= 16 {
        full[16 - n..].to_vec()
    } else {
        let mut out = vec![if v < 0 { 0xff } else { 0 }; n - 16];
        out.extend_from_slice(&full);
        out
    }
}

/// this file's own Arrow-logical -> Parquet-physical conversion (LogicalTypes.md)
fn to_pv(leaf: &LType, phys: Phys, type_len: usize, v: &LValue) -> PV {
    use LType::*;
    let leaf = leaf.denoted();
    match (leaf, v) {
        (_, LValue::Bool(b)) => PV::Bool(*b),
        (_, LValue::F32(b)) => PV::F32(*b),
        (_, LValue::F64(b)) => PV::F64(*b),
        (_, LValue::F16(b)) => PV::Bytes(b.to_le_bytes().to_vec()),
        (_, LValue::Str(s)) => PV::Bytes(s.as_bytes().to_vec()),
        (_, LValue::Bytes(b)) => PV::Bytes(b.clone()),
        (_, LValue::DayTime(d, ms)) => {
            let mut o = vec![0u8; 4];
            o.extend_from_slice(&d.to_le_bytes());
            o.extend_from_slice(&ms.to_le_bytes());
            PV::Bytes(o)
        }
        (IntervalYM, LValue::Int(m)) => {
            let mut o = (*m as i32).to_le_bytes().to_vec();
            o.extend_from_slice(&[0u8; 8]);
            PV::Bytes(o)
        }
        (Decimal { .. }, LValue::Big(b)) => match phys {
            Phys::INT32 => PV::I32(i32::from_le_bytes([b[0], b[1], b[2], b[3]])),
            Phys::INT64 => PV::I64(i64::from_le_bytes(b[..8].try_into().unwrap())),
            _ => {
                let mut be: Vec<u8> = b.iter().rev().copied().collect();
                if type_len > 0 && type_len < 32 {
                    be = be[32 - type_len..].to_vec();
                }
                PV::Bytes(be)
            }
        },
        (_, LValue::Int(i)) => match phys {
            Phys::INT32 => PV::I32(*i as i32),
            Phys::INT64 => PV::I64(*i as i64),
            _ => PV::Bytes(be_bytes_of_i128(*i, if type_len == 0 { 16 } else { type_len })),
        },
        _ => PV::Bytes(vec![]),
    }
}

// ------------------------------------------------------------------------------------------------
// model shredding: entries and non-null leaf values per row, per leaf

#[derive(Clone, Debug, Default)]
struct RowTruth {
    entries: usize,
    vals: Vec<LValue>,
}

/// walk value `v` of type `ty`; `out[base..]` receive one RowTruth contribution per leaf; returns number of leaves
fn shred(ty: &LType, v: &LValue, out: &mut [RowTruth], base: usize) -> usize {
    use LType::*;
    let nleaves = {
        let mut l = vec![];
        leaves_of(ty, &mut l);
        l.len()
    };
    if v.is_null() {
        for r in out[base..base + nleaves].iter_mut() {
            r.entries += 1;
        }
        return nleaves;
    }
    match (ty, v) {
        (List(f, _) | FixedList(f, _), LValue::List(items)) => {
            if items.is_empty() {
                for r in out[base..base + nleaves].iter_mut() {
                    r.entries += 1;
                }
            } else {
                for it in items {
                    shred(&f.ty, it, out, base);
                }
            }
        }
        (Struct(fs), LValue::Struct(vs)) => {
            let mut b = base;
            for (f, x) in fs.iter().zip(vs) {
                b += shred(&f.ty, x, out, b);
            }
        }
        (Map { key, val, .. }, LValue::Map(es)) => {
            if es.is_empty() {
                for r in out[base..base + nleaves].iter_mut() {
                    r.entries += 1;
                }
            } else {
                let nk = {
                    let mut l = vec![];
                    leaves_of(&key.ty, &mut l);
                    l.len()
                };
                for (k, x) in es {
                    shred(&key.ty, k, out, base);
                    shred(&val.ty, x, out, base + nk);
                }
            }
        }
        (Ree { value, .. }, x) => {
            shred(&value.ty, x, out, base);
        }
        (_, x) => {
            out[base].entries += 1;
            out[base].vals.push(x.clone());
        }
    }
    nleaves
}

/// everything the oracle knows about one leaf column
struct ColTruth {
    name: String,
    ord: Ord_,
    utf8: bool,
    /// per file row: number of level entries and the non-null physical values
    rows: Vec<(usize, Vec<PV>)>,
    bloom: bool,
    /// (leaf index, arrow leaf field) to drive StatisticsConverter; None = not judged through the converter
    conv: Option<(Field, LType)>,
    top_level_flat: bool,
}

// ------------------------------------------------------------------------------------------------
// sequential page decoding

struct OnePage {
    q: VecDeque<Page>,
}
impl Iterator for OnePage {
    type Item = parquet::errors::Result<Page>;
    fn next(&mut self) -> Option<Self::Item> {
        self.q.pop_front().map(Ok)
    }
}
impl PageReader for OnePage {
    fn get_next_page(&mut self) -> parquet::errors::Result<Option<Page>> {
        Ok(self.q.pop_front())
    }
    fn peek_next_page(&mut self) -> parquet::errors::Result<Option<PageMetadata>> {
        Ok(self.q.front().map(|p| match p {
            Page::DictionaryPage { .. } => PageMetadata { num_rows: None, num_levels: None, is_dict: true },
            Page::DataPage { num_values, .. } => PageMetadata { num_rows: None, num_levels: Some(*num_values as usize), is_dict: false },
            Page::DataPageV2 { num_values, num_rows, .. } => PageMetadata { num_rows: Some(*num_rows as usize), num_levels: Some(*num_values as usize), is_dict: false },
        }))
    }
    fn skip_next_page(&mut self) -> parquet::errors::Result<()> {
        self.q.pop_front();
        Ok(())
    }
}

trait ToPv {
    fn pv(&self) -> PV;
}
impl ToPv for bool {
    fn pv(&self) -> PV {
        PV::Bool(*self)
    }
}
impl ToPv for i32 {
    fn pv(&self) -> PV {
        PV::I32(*self)
    }
}
impl ToPv for i64 {
    fn pv(&self) -> PV {
        PV::I64(*self)
    }
}
impl ToPv for f32 {
    fn pv(&self) -> PV {
        PV::F32(self.to_bits())
    }
}
impl ToPv for f64 {
    fn pv(&self) -> PV {
        PV::F64(self.to_bits())
    }
}
impl ToPv for ByteArray {
    fn pv(&self) -> PV {
        PV::Bytes(self.data().to_vec())
    }
}
impl ToPv for FixedLenByteArray {
    fn pv(&self) -> PV {
        PV::Bytes(self.data().to_vec())
    }
}

struct PageData {
    vals: Vec<PV>,
    entries: usize,
    nulls: usize,
    rows: usize,
    header_stats: Option<Statistics>,
    /// (num_nulls, num_rows, num_values) of a V2 header
    v2: Option<(u32, u32, u32)>,
    v1_num_values: Option<u32>,
}

fn decode_page<T: PqDataType>(descr: &ColumnDescPtr, dict: Option<Page>, page: Page) -> Result<(Vec<PV>, Vec<i16>, Vec<i16>), Fail>
where
    T::T: ToPv,
{
    let mut q = VecDeque::new();
    if let Some(d) = dict {
        q.push_back(d);
    }
    q.push_back(page);
    let mut rd = ColumnReaderImpl::<T>::new(descr.clone(), Box::new(OnePage { q }));
    let mut def: Vec<i16> = vec![];
    let mut rep: Vec<i16> = vec![];
    let mut vals: Vec<T::T> = vec![];
    let max_def = descr.max_def_level();
    let max_rep = descr.max_rep_level();
    let r = no_panic("read_records", || rd.read_records(usize::MAX / 4, if max_def > 0 { Some(&mut def) } else { None }, if max_rep > 0 { Some(&mut rep) } else { None }, &mut vals))?;
    let (_records, nvals, nlevels) = perr("read_records", r)?;
    ensure!(nvals == vals.len(), "pages:read_records", "read_records reports {} values, buffer has {}", nvals, vals.len());
    if max_def == 0 {
        def = vec![0; nlevels];
    }
    if max_rep == 0 {
        rep = vec![0; nlevels];
    }
    ensure!(def.len() == nlevels && rep.len() == nlevels, "pages:read_records", "levels read {} def {} rep {}", nlevels, def.len(), rep.len());
    Ok((vals.iter().map(|v| v.pv()).collect(), def, rep))
}

fn read_chunk_pages(rg: &dyn parquet::file::reader::RowGroupReader, ci: usize, descr: &ColumnDescPtr) -> Result<Vec<PageData>, Fail> {
    let mut pr = perr("get_column_page_reader", no_panic("get_column_page_reader", || rg.get_column_page_reader(ci))?)?;
    let mut dict: Option<Page> = None;
    let mut out = vec![];
    loop {
        let p = perr("get_next_page", no_panic("get_next_page", || pr.get_next_page())?)?;
        let Some(p) = p else { break };
        if let Page::DictionaryPage { .. } = p {
            ensure!(dict.is_none() && out.is_empty(), "pages:dictionary_position", "dictionary page is not the first and only one of the chunk");
            dict = Some(p);
            continue;
        }
        let (header_stats, v2, v1n) = match &p {
            Page::DataPage { statistics, num_values, .. } => (statistics.clone(), None, Some(*num_values)),
            Page::DataPageV2 { statistics, num_nulls, num_rows, num_values, .. } => (statistics.clone(), Some((*num_nulls, *num_rows, *num_values)), None),
            _ => unreachable!(),
        };
        let (vals, def, rep) = match descr.physical_type() {
            Phys::BOOLEAN => decode_page::<BoolType>(descr, dict.clone(), p)?,
            Phys::INT32 => decode_page::<Int32Type>(descr, dict.clone(), p)?,
            Phys::INT64 => decode_page::<Int64Type>(descr, dict.clone(), p)?,
            Phys::FLOAT => decode_page::<FloatType>(descr, dict.clone(), p)?,
            Phys::DOUBLE => decode_page::<DoubleType>(descr, dict.clone(), p)?,
            Phys::BYTE_ARRAY => decode_page::<ByteArrayType>(descr, dict.clone(), p)?,
            Phys::FIXED_LEN_BYTE_ARRAY => decode_page::<FixedLenByteArrayType>(descr, dict.clone(), p)?,
            Phys::INT96 => fail!("harness:int96", "unexpected INT96 column"),
        };
        let max_def = descr.max_def_level();
        let nonnull = def.iter().filter(|d| **d == max_def).count();
        ensure!(nonnull == vals.len(), "pages:levels_vs_values", "{} entries at max definition level but {} values decoded", nonnull, vals.len());
        out.push(PageData {
            entries: def.len(),
            nulls: def.len() - nonnull,
            rows: rep.iter().filter(|r| **r == 0).count(),
            vals,
            header_stats,
            v2,
            v1_num_values: v1n,
        });
    }
    Ok(out)
}

// ------------------------------------------------------------------------------------------------
// judging bounds

fn parse_stat(phys: Phys, b: &[u8], what: &str) -> Result<PV, Fail> {
    let bad = || Fail::new("stats:value_length", format!("{}: {:?} statistic has {} bytes", what, phys, b.len()));
    Ok(match phys {
        Phys::BOOLEAN => PV::Bool(*b.first().ok_or_else(bad)? != 0),
        Phys::INT32 => PV::I32(i32::from_le_bytes(b.try_into().map_err(|_| bad())?)),
        Phys::INT64 => PV::I64(i64::from_le_bytes(b.try_into().map_err(|_| bad())?)),
        Phys::FLOAT => PV::F32(u32::from_le_bytes(b.try_into().map_err(|_| bad())?)),
        Phys::DOUBLE => PV::F64(u64::from_le_bytes(b.try_into().map_err(|_| bad())?)),
        _ => PV::Bytes(b.to_vec()),
    })
}

struct Bound {
    v: PV,
    exact: bool,
}

/// `min <= v <= max` for every non-null non-NaN value; exact bounds are attained; inexact ones are sound (and UTF-8 / short)
fn check_bounds(col: &ColTruth, vals: &[&PV], min: Option<Bound>, max: Option<Bound>, trunc: Option<usize>, scope: &str) -> CaseResult {
    let o = col.ord;
    if o == Ord_::Undefined {
        return Ok(());
    }
    let live: Vec<&PV> = vals.iter().copied().filter(|v| !is_nan(o, v)).collect();
    if live.is_empty() {
        // all null or NaN only: min/max may be absent or NaN (not constrained)
        return Ok(());
    }
    for (b, is_min) in [(min, true), (max, false)] {
        let Some(b) = b else { continue };
        let side = if is_min { "min" } else { "max" };
        ensure!(!is_nan(o, &b.v), format!("{}:{}_nan", scope, side), "column {}: {} is NaN although {} non-NaN values are covered", col.name, side, live.len());
        for v in &live {
            let c = ref_cmp(o, &b.v, v);
            let ok = if is_min { c != Ordering::Greater } else { c != Ordering::Less };
            if !ok {
                fail!(format!("{}:{}_not_a_bound", scope, side), "column {} ({:?}): {} {:?} (exact={}) does not bound value {:?}", col.name, o, side, b.v, b.exact, v);
            }
        }
        if b.exact {
            ensure!(
                live.iter().any(|v| ref_cmp(o, &b.v, v) == Ordering::Equal),
                format!("{}:{}_exact_not_attained", scope, side),
                "column {} ({:?}): {} {:?} is flagged exact but no covered value equals it",
                col.name,
                o,
                side,
                b.v
            );
        } else if let PV::Bytes(bytes) = &b.v {
            if let Some(l) = trunc {
                ensure!(bytes.len() <= l, format!("{}:{}_longer_than_truncate_length", scope, side), "column {}: inexact {} has {} bytes, truncate length {}", col.name, side, bytes.len(), l);
            }
        }
        if col.utf8 {
            if let PV::Bytes(bytes) = &b.v {
                ensure!(std::str::from_utf8(bytes).is_ok(), format!("{}:{}_not_utf8", scope, side), "column {}: {} {:?} of a string column is not valid UTF-8", col.name, side, bytes);
            }
        }
    }
    Ok(())
}

fn stats_bounds(phys: Phys, s: &Statistics, what: &str) -> Result<(Option<Bound>, Option<Bound>), Fail> {
    let mn = match s.min_bytes_opt() {
        Some(b) => Some(Bound { v: parse_stat(phys, b, what)?, exact: s.min_is_exact() }),
        None => None,
    };
    let mx = match s.max_bytes_opt() {
        Some(b) => Some(Bound { v: parse_stat(phys, b, what)?, exact: s.max_is_exact() }),
        None => None,
    };
    Ok((mn, mx))
}

fn index_bounds(ci: &ColumnIndexMetaData, i: usize) -> (Option<PV>, Option<PV>) {
    macro_rules! prim {
        ($x:expr, $f:expr) => {
            ($x.min_value(i).map($f), $x.max_value(i).map($f))
        };
    }
    match ci {
        ColumnIndexMetaData::BOOLEAN(x) => prim!(x, |v: &bool| PV::Bool(*v)),
        ColumnIndexMetaData::INT32(x) => prim!(x, |v: &i32| PV::I32(*v)),
        ColumnIndexMetaData::INT64(x) => prim!(x, |v: &i64| PV::I64(*v)),
        ColumnIndexMetaData::FLOAT(x) => prim!(x, |v: &f32| PV::F32(v.to_bits())),
        ColumnIndexMetaData::DOUBLE(x) => prim!(x, |v: &f64| PV::F64(v.to_bits())),
        ColumnIndexMetaData::BYTE_ARRAY(x) | ColumnIndexMetaData::FIXED_LEN_BYTE_ARRAY(x) => (x.min_value(i).map(|b| PV::Bytes(b.to_vec())), x.max_value(i).map(|b| PV::Bytes(b.to_vec()))),
        ColumnIndexMetaData::INT96(_) => (None, None),
    }
}

// ------------------------------------------------------------------------------------------------
// the oracle over one written file

struct FileOutcome {
    multi_page_with_null: bool,
    truncated: bool,
    chunk_stats: bool,
    column_index: bool,
    offset_index: bool,
    bloom: bool,
    page_header_stats: bool,
    boundary_claims: u32,
    null_pages: u32,
    converter: bool,
    empty_pages: u32,
    evals: u64,
}

fn verify_file(bytes: &Bytes, cols: &[ColTruth], facts: &PropFacts, total_rows: usize) -> Result<FileOutcome, Fail> {
    let mut fo = FileOutcome { multi_page_with_null: false, truncated: false, chunk_stats: false, column_index: false, offset_index: false, bloom: false, page_header_stats: false, boundary_claims: 0, null_pages: 0, converter: false, empty_pages: 0, evals: 0 };
    // reader 1: sequential pages, no page index, bloom filters on
    let ropts = ReadOptionsBuilder::new().with_reader_properties(ReaderProperties::builder().set_read_bloom_filter(true).set_read_page_statistics(true).build()).build();
    let fr = perr("SerializedFileReader::new", no_panic("SerializedFileReader::new", || SerializedFileReader::new_with_options(bytes.clone(), ropts))?)?;
    // reader 2: metadata with page index
    let arm = perr("ArrowReaderMetadata::load", no_panic("ArrowReaderMetadata::load", || ArrowReaderMetadata::load(bytes, ArrowReaderOptions::new().with_page_index_policy(PageIndexPolicy::Optional)))?)?;
    let meta: &ParquetMetaData = arm.metadata();
    // reader 3: pages fetched through the offset index (page locations) - must yield the same pages as reader 1
    let fr_idx = if meta.page_index().map(|p| p.has_offset_indexes()).unwrap_or(false) {
        let o = ReadOptionsBuilder::new().with_page_index().build();
        no_panic("SerializedFileReader::new(page index)", || SerializedFileReader::new_with_options(bytes.clone(), o))?.ok()
    } else {
        None
    };
    let pq_schema: &SchemaDescriptor = meta.file_metadata().schema_descr();
    let arrow_schema = arm.schema().clone();
    ensure!(pq_schema.num_columns() == cols.len(), "harness:columns", "file has {} leaf columns, model {}", pq_schema.num_columns(), cols.len());
    ensure!(meta.file_metadata().num_rows() as usize == total_rows, "rows:file", "file num_rows {} but {} rows written", meta.file_metadata().num_rows(), total_rows);

    let mut row0 = 0usize;
    let nrg = meta.num_row_groups();
    for rgi in 0..nrg {
        let rgm = meta.row_group(rgi);
        let rg_rows = rgm.num_rows() as usize;
        ensure!(row0 + rg_rows <= total_rows, "rows:row_group", "row group {} ends at row {} but only {} rows were written", rgi, row0 + rg_rows, total_rows);
        let rgr = perr("get_row_group", no_panic("get_row_group", || fr.get_row_group(rgi))?)?;
        for (ci, col) in cols.iter().enumerate() {
            let descr = pq_schema.column(ci);
            let phys = descr.physical_type();
            let ccm = rgm.column(ci);
            // declared order must be the spec's order for the type (otherwise every comparison below is moot)
            let decl = meta.file_metadata().column_order(ci).sort_order();
            ensure!(decl == declared(col.ord), "order:declared", "column {}: declared sort order {:?}, reference {:?}", col.name, decl, col.ord);

            let pages = read_chunk_pages(rgr.as_ref(), ci, &descr)?;
            if std::env::var("C07_DEBUG").is_ok() {
                eprintln!("DEBUG col {} rg {} rows {}: pages (entries,rows,nulls,values) {:?}", col.name, rgi, rg_rows, pages.iter().map(|p| (p.entries, p.rows, p.nulls, p.vals.len())).collect::<Vec<_>>());
            }
            // ---- model vs pages
            let mrows = &col.rows[row0..row0 + rg_rows];
            let mut r = 0usize;
            let mut chunk_vals: Vec<&PV> = vec![];
            let mut chunk_nulls = 0usize;
            let mut chunk_entries = 0usize;
            let mut page_rows0 = vec![];
            for (pi, p) in pages.iter().enumerate() {
                page_rows0.push(r);
                // content-defined chunking can emit a data page without any entry (explicit page break right after a
                // page the size limits already closed); it delimits zero rows and is tolerated (counted). A page
                // with entries but no row start would be a record split across pages.
                ensure!(p.rows >= 1 || p.entries == 0, "pages:record_split", "column {} rg {} page {} holds {} entries but starts no row", col.name, rgi, pi, p.entries);
                if p.entries == 0 {
                    fo.empty_pages += 1;
                }
                ensure!(r + p.rows <= rg_rows, "pages:rows", "column {} rg {}: pages hold more rows than the row group ({})", col.name, rgi, rg_rows);
                let want_entries: usize = mrows[r..r + p.rows].iter().map(|x| x.0).sum();
                let want_vals: Vec<&PV> = mrows[r..r + p.rows].iter().flat_map(|x| x.1.iter()).collect();
                ensure!(want_entries == p.entries, "pages:entries", "column {} rg {} page {}: {} level entries decoded, model has {} for rows {}..{}", col.name, rgi, pi, p.entries, want_entries, r, r + p.rows);
                if want_vals.len() != p.vals.len() || want_vals.iter().zip(&p.vals).any(|(a, b)| *a != b) {
                    let k = want_vals.iter().zip(&p.vals).position(|(a, b)| *a != b).unwrap_or(want_vals.len().min(p.vals.len()));
                    fail!("pages:values", "column {} rg {} page {} value {}: decoded {:?} written {:?} ({} vs {} values)", col.name, rgi, pi, k, p.vals.get(k), want_vals.get(k), p.vals.len(), want_vals.len());
                }
                if let Some((nn, nr, nv)) = p.v2 {
                    ensure!(nn as usize == p.nulls, "page_header:num_nulls", "column {} rg {} page {}: header num_nulls {} actual {}", col.name, rgi, pi, nn, p.nulls);
                    ensure!(nr as usize == p.rows, "page_header:num_rows", "column {} rg {} page {}: header num_rows {} actual {}", col.name, rgi, pi, nr, p.rows);
                    ensure!(nv as usize == p.entries, "page_header:num_values", "column {} rg {} page {}: header num_values {} actual {}", col.name, rgi, pi, nv, p.entries);
                }
                if let Some(nv) = p.v1_num_values {
                    ensure!(nv as usize == p.entries, "page_header:num_values", "column {} rg {} page {}: header num_values {} actual {}", col.name, rgi, pi, nv, p.entries);
                }
                // ---- page header statistics
                if let Some(s) = &p.header_stats {
                    fo.page_header_stats = true;
                    let pv: Vec<&PV> = p.vals.iter().collect();
                    let (mn, mx) = stats_bounds(phys, s, "page header")?;
                    if mn.as_ref().map(|b| !b.exact).unwrap_or(false) || mx.as_ref().map(|b| !b.exact).unwrap_or(false) {
                        fo.truncated = true;
                    }
                    check_bounds(col, &pv, mn, mx, facts.stats_truncate, "page_header")?;
                    if let Some(nc) = s.null_count_opt() {
                        ensure!(nc as usize == p.nulls, "page_header:null_count", "column {} rg {} page {}: null_count {} actual {}", col.name, rgi, pi, nc, p.nulls);
                    }
                    fo.evals += 1;
                }
                r += p.rows;
                chunk_vals.extend(p.vals.iter());
                chunk_nulls += p.nulls;
                chunk_entries += p.entries;
            }
            ensure!(r == rg_rows, "pages:rows", "column {} rg {}: pages hold {} rows, row group {}", col.name, rgi, r, rg_rows);
            ensure!(ccm.num_values() as usize == chunk_entries, "chunk:num_values", "column {} rg {}: num_values {} actual {}", col.name, rgi, ccm.num_values(), chunk_entries);
            if pages.len() >= 2 && chunk_nulls > 0 {
                fo.multi_page_with_null = true;
            }

            // ---- chunk statistics
            if let Some(s) = ccm.statistics() {
                let (mn, mx) = stats_bounds(phys, s, "chunk")?;
                if mn.is_some() {
                    fo.chunk_stats = true;
                }
                if mn.as_ref().map(|b| !b.exact).unwrap_or(false) || mx.as_ref().map(|b| !b.exact).unwrap_or(false) {
                    fo.truncated = true;
                }
                check_bounds(col, &chunk_vals, mn, mx, facts.stats_truncate, "chunk")?;
                if let Some(nc) = s.null_count_opt() {
                    ensure!(nc as usize == chunk_nulls, "chunk:null_count", "column {} rg {}: null_count {} actual {}", col.name, rgi, nc, chunk_nulls);
                }
                fo.evals += 1;
            }

            // ---- offset index
            let pidx = meta.page_index();
            if let Some(oi) = pidx.and_then(|p| p.offset_index(rgi, ci)) {
                fo.offset_index = true;
                let locs = oi.page_locations();
                ensure!(locs.len() == pages.len(), "offset_index:pages", "column {} rg {}: offset index lists {} pages, chunk has {} data pages", col.name, rgi, locs.len(), pages.len());
                for (pi, l) in locs.iter().enumerate() {
                    ensure!(l.first_row_index as usize == page_rows0[pi], "offset_index:first_row_index", "column {} rg {} page {}: first_row_index {} but the page starts at row {}", col.name, rgi, pi, l.first_row_index, page_rows0[pi]);
                    ensure!(l.compressed_page_size > 0, "offset_index:size", "column {} rg {} page {}: compressed_page_size {}", col.name, rgi, pi, l.compressed_page_size);
                    if pi > 0 {
                        ensure!(l.offset >= locs[pi - 1].offset + locs[pi - 1].compressed_page_size as i64, "offset_index:offset", "column {} rg {} page {}: offset {} overlaps the previous page", col.name, rgi, pi, l.offset);
                        ensure!(l.first_row_index > locs[pi - 1].first_row_index || pages[pi - 1].entries == 0, "offset_index:first_row_index", "column {} rg {} page {}: first_row_index not strictly increasing", col.name, rgi, pi);
                    }
                }
                fo.evals += 1;
            }
            // ---- pages located through the offset index decode to the same content
            if let (Some(fi), Some(_)) = (&fr_idx, pidx.and_then(|p| p.offset_index(rgi, ci))) {
                if fi.metadata().page_index().and_then(|p| p.offset_index(rgi, ci)).is_some() {
                    let rgi2 = perr("get_row_group", no_panic("get_row_group", || fi.get_row_group(rgi))?)?;
                    let pages2 = read_chunk_pages(rgi2.as_ref(), ci, &descr)?;
                    ensure!(pages2.len() == pages.len(), "offset_index:page_fetch", "column {} rg {}: {} pages through page locations, {} sequentially", col.name, rgi, pages2.len(), pages.len());
                    for (pi, (a, b)) in pages.iter().zip(&pages2).enumerate() {
                        ensure!(a.entries == b.entries && a.rows == b.rows && a.vals == b.vals, "offset_index:page_fetch", "column {} rg {} page {}: page located through the offset index differs from the sequential page ({} vs {} entries)", col.name, rgi, pi, b.entries, a.entries);
                    }
                    fo.evals += 1;
                }
            }
            // ---- column index
            if let Some(cidx) = pidx.and_then(|p| p.column_index(rgi, ci)) {
                fo.column_index = true;
                ensure!(cidx.num_pages() as usize == pages.len(), "column_index:pages", "column {} rg {}: column index has {} pages, chunk {}", col.name, rgi, cidx.num_pages(), pages.len());
                let mut seq: Vec<(PV, PV)> = vec![];
                for (pi, p) in pages.iter().enumerate() {
                    let np = cidx.is_null_page(pi);
                    if np {
                        fo.null_pages += 1;
                        ensure!(p.vals.is_empty(), "column_index:null_page_with_values", "column {} rg {} page {} is flagged as null page but holds {} non-null values (first {:?})", col.name, rgi, pi, p.vals.len(), p.vals.first());
                    } else if p.entries == 0 {
                        // empty page (see above): nothing to bound
                    } else {
                        ensure!(!p.vals.is_empty(), "column_index:valueless_page_not_null_page", "column {} rg {} page {} holds no value but is not flagged as null page", col.name, rgi, pi);
                        let (mn, mx) = index_bounds(cidx, pi);
                        let pv: Vec<&PV> = p.vals.iter().collect();
                        // boundary order is judged on the pages' actual extrema (what the claim is about and what
                        // makes pruning sound); stored bounds may be truncated, which is not monotone at UTF-8
                        // character boundaries. NaN-only pages are not constrained and are skipped.
                        let live: Vec<&PV> = pv.iter().copied().filter(|v| !is_nan(col.ord, v)).collect();
                        if let Some(first) = live.first() {
                            let mut lo = *first;
                            let mut hi = *first;
                            for v in &live {
                                if ref_cmp(col.ord, v, lo) == Ordering::Less {
                                    lo = v;
                                }
                                if ref_cmp(col.ord, v, hi) == Ordering::Greater {
                                    hi = v;
                                }
                            }
                            seq.push((lo.clone(), hi.clone()));
                        }
                        check_bounds(col, &pv, mn.map(|v| Bound { v, exact: false }), mx.map(|v| Bound { v, exact: false }), None, "column_index")?;
                    }
                    if let Some(nc) = cidx.null_count(pi) {
                        ensure!(nc as usize == p.nulls, "column_index:null_count", "column {} rg {} page {}: null_count {} actual {}", col.name, rgi, pi, nc, p.nulls);
                    }
                }
                if col.ord != Ord_::Undefined {
                    let bo = cidx.get_boundary_order().unwrap_or(BoundaryOrder::UNORDERED);
                    if bo != BoundaryOrder::UNORDERED && seq.len() >= 2 {
                        fo.boundary_claims += 1;
                    }
                    for w in seq.windows(2) {
                        let (cmin, cmax) = (ref_cmp(col.ord, &w[0].0, &w[1].0), ref_cmp(col.ord, &w[0].1, &w[1].1));
                        match bo {
                            BoundaryOrder::ASCENDING => ensure!(cmin != Ordering::Greater && cmax != Ordering::Greater, "column_index:boundary_order", "column {} rg {}: ASCENDING claimed but pages ({:?},{:?}) then ({:?},{:?})", col.name, rgi, w[0].0, w[0].1, w[1].0, w[1].1),
                            BoundaryOrder::DESCENDING => ensure!(cmin != Ordering::Less && cmax != Ordering::Less, "column_index:boundary_order", "column {} rg {}: DESCENDING claimed but pages ({:?},{:?}) then ({:?},{:?})", col.name, rgi, w[0].0, w[0].1, w[1].0, w[1].1),
                            BoundaryOrder::UNORDERED => {}
                        }
                    }
                }
                fo.evals += 1;
            }

            // ---- bloom filter
            if col.bloom {
                if let Some(sbbf) = rgr.get_column_bloom_filter(ci) {
                    fo.bloom = true;
                    check_bloom(sbbf, col, &chunk_vals, rgi)?;
                    fo.evals += 1;
                }
            }

            // ---- StatisticsConverter
            if let Some((leaf_field, leaf_ty)) = &col.conv {
                let conv = if col.top_level_flat {
                    StatisticsConverter::try_new(&col.name, &arrow_schema, pq_schema)
                } else {
                    StatisticsConverter::from_column_index(ci, leaf_field, pq_schema)
                };
                let conv = perr("StatisticsConverter::new", conv)?;
                let type_len = descr.type_length().max(0) as usize;
                let one = |a: ArrayRef, what: &str| -> Result<Vec<Option<PV>>, Fail> {
                    let vals = no_panic("extract", || extract(a.as_ref()))?;
                    let _ = what;
                    Ok(vals.iter().map(|v| if v.is_null() { None } else { Some(to_pv(leaf_ty, phys, type_len, v)) }).collect())
                };
                let rgs = [rgm];
                let mins = one(perr("row_group_mins", no_panic("row_group_mins", || conv.row_group_mins(rgs.iter().copied()))?)?, "min")?;
                let maxs = one(perr("row_group_maxes", no_panic("row_group_maxes", || conv.row_group_maxes(rgs.iter().copied()))?)?, "max")?;
                let emin = perr("row_group_is_min_value_exact", conv.row_group_is_min_value_exact(rgs.iter().copied()))?;
                let emax = perr("row_group_is_max_value_exact", conv.row_group_is_max_value_exact(rgs.iter().copied()))?;
                ensure!(mins.len() == 1 && maxs.len() == 1, "converter:len", "row group statistics arrays have {} / {} entries for one row group", mins.len(), maxs.len());
                let bmin = mins[0].clone().map(|v| Bound { v, exact: emin.is_valid(0) && emin.value(0) });
                let bmax = maxs[0].clone().map(|v| Bound { v, exact: emax.is_valid(0) && emax.value(0) });
                if bmin.is_some() {
                    fo.converter = true;
                }
                // an exact chunk statistic of a type the converter supports must come through (null = "unknown" would
                // silently disable pruning; truncated fixed-size-binary bounds are documented to be dropped)
                if let Some(st) = ccm.statistics() {
                    if st.min_bytes_opt().is_some() && st.min_is_exact() && col.ord != Ord_::Undefined {
                        ensure!(bmin.is_some(), "converter_rg:min_missing", "column {} rg {}: chunk statistics have an exact min but StatisticsConverter returns null", col.name, rgi);
                    }
                    if st.max_bytes_opt().is_some() && st.max_is_exact() && col.ord != Ord_::Undefined {
                        ensure!(bmax.is_some(), "converter_rg:max_missing", "column {} rg {}: chunk statistics have an exact max but StatisticsConverter returns null", col.name, rgi);
                    }
                }
                check_bounds(col, &chunk_vals, bmin, bmax, None, "converter_rg")?;
                let nc = perr("row_group_null_counts", conv.row_group_null_counts(rgs.iter().copied()))?;
                if ccm.statistics().is_some() && nc.is_valid(0) {
                    ensure!(nc.value(0) as usize == chunk_nulls, "converter_rg:null_count", "column {} rg {}: converter null count {} actual {}", col.name, rgi, nc.value(0), chunk_nulls);
                }
                if let Some(rc) = perr("row_group_row_counts", conv.row_group_row_counts(rgs.iter().copied()))? {
                    ensure!(rc.len() == 1 && rc.value(0) as usize == rg_rows, "converter_rg:row_count", "column {} rg {}: converter row count {:?} actual {}", col.name, rgi, rc, rg_rows);
                }
                // data pages
                if let Some(pidx) = pidx {
                    if pidx.column_index(rgi, ci).is_some() && pidx.offset_index(rgi, ci).is_some() {
                        let idxs = [rgi];
                        let pmins = one(perr("data_page_mins", no_panic("data_page_mins", || conv.data_page_mins(pidx, idxs.iter()))?)?, "min")?;
                        let pmaxs = one(perr("data_page_maxes", no_panic("data_page_maxes", || conv.data_page_maxes(pidx, idxs.iter()))?)?, "max")?;
                        ensure!(pmins.len() == pages.len() && pmaxs.len() == pages.len(), "converter_page:len", "column {} rg {}: data page statistics have {} / {} entries, {} pages", col.name, rgi, pmins.len(), pmaxs.len(), pages.len());
                        for (pi, p) in pages.iter().enumerate() {
                            let pv: Vec<&PV> = p.vals.iter().collect();
                            check_bounds(col, &pv, pmins[pi].clone().map(|v| Bound { v, exact: false }), pmaxs[pi].clone().map(|v| Bound { v, exact: false }), None, "converter_page")?;
                        }
                        let pn = perr("data_page_null_counts", conv.data_page_null_counts(pidx, idxs.iter()))?;
                        ensure!(pn.len() == pages.len(), "converter_page:len", "data page null counts {} entries, {} pages", pn.len(), pages.len());
                        for (pi, p) in pages.iter().enumerate() {
                            if pn.is_valid(pi) {
                                ensure!(pn.value(pi) as usize == p.nulls, "converter_page:null_count", "column {} rg {} page {}: converter null count {} actual {}", col.name, rgi, pi, pn.value(pi), p.nulls);
                            }
                        }
                        if let Some(prc) = perr("data_page_row_counts", no_panic("data_page_row_counts", || conv.data_page_row_counts(pidx, meta.row_groups(), idxs.iter()))?)? {
                            ensure!(prc.len() == pages.len(), "converter_page:len", "data page row counts {} entries, {} pages", prc.len(), pages.len());
                            for (pi, p) in pages.iter().enumerate() {
                                if prc.is_valid(pi) {
                                    ensure!(prc.value(pi) as usize == p.rows, "converter_page:row_count", "column {} rg {} page {}: converter row count {} actual {}", col.name, rgi, pi, prc.value(pi), p.rows);
                                }
                            }
                        }
                    }
                }
                fo.evals += 1;
            }
        }
        row0 += rg_rows;
    }
    ensure!(row0 == total_rows, "rows:row_groups", "row groups hold {} rows, {} written", row0, total_rows);
    Ok(fo)
}

fn check_bloom(sbbf: &Sbbf, col: &ColTruth, vals: &[&PV], rgi: usize) -> CaseResult {
    for v in vals {
        let b = v.hash_bytes();
        ensure!(sbbf.check(&b[..]), "bloom:false_negative", "column {} rg {}: written value {:?} tests negative in the bloom filter ({} blocks)", col.name, rgi, v, sbbf.num_blocks());
    }
    Ok(())
}

// ------------------------------------------------------------------------------------------------
// generators (arrow path)

const EDGE_CHARS: [&str; 10] = ["\u{10ffff}", "\u{7f}", "\u{7ff}", "\u{ffff}", "\u{d7ff}", "\u{e000}", "é", "中", "😀", "\u{80}"];

/// string whose interesting code points sit around byte position `cut`
fn gen_edge_string(t: &mut Tape, cut: usize) -> String {
    let mut s = String::new();
    match t.below(6) {
        0 => {
            // all-maximal prefix: increment has to shorten or give up
            let n = cut / 4 + t.below(3);
            for _ in 0..n {
                s.push('\u{10ffff}');
            }
        }
        1 => return gen_string(t, 8),
        _ => {
            let k = cut.saturating_sub(t.below(5));
            let pc = *t.pick(&['a', 'a', 'b', '\u{7f}']);
            for _ in 0..k {
                s.push(pc);
            }
            let e = *t.pick(&EDGE_CHARS);
            for _ in 0..1 + t.below(3) {
                s.push_str(if t.chance(200) { e } else { *t.pick(&EDGE_CHARS) });
            }
        }
    }
    for _ in 0..t.below(4) {
        s.push_str(*t.pick(&["a", "\u{10ffff}", "z", "\u{0}", "é"]));
    }
    s
}

fn gen_edge_bytes(t: &mut Tape, cut: usize) -> Vec<u8> {
    let mut b = vec![];
    match t.below(6) {
        0 => {
            for _ in 0..cut + t.below(3) {
                b.push(0xff);
            }
        }
        1 => return gen_bytes(t, 8),
        _ => {
            let k = cut.saturating_sub(t.below(4));
            let pc = *t.pick(&[0x61u8, 0x61, 0x00, 0xfe]);
            for _ in 0..k {
                b.push(pc);
            }
            for _ in 0..t.below(4) {
                b.push(0xff);
            }
        }
    }
    for _ in 0..t.below(4) {
        b.push(*t.pick(&[0x00u8, 0xff, 0x7f, 0x80, 0x61]));
    }
    b
}

fn gen_corner_value(t: &mut Tape, ty: &LType, cut: usize, vcfg: &ValCfg) -> LValue {
    use LType::*;
    match ty.denoted() {
        Utf8(_) => LValue::Str(gen_edge_string(t, cut)),
        Binary(_) => LValue::Bytes(gen_edge_bytes(t, cut)),
        Int { bits, signed: false } if *bits >= 32 && t.chance(120) => {
            let top = 1i128 << (*bits - 1);
            LValue::Int(*t.pick(&[top, top - 1, top + 1, (top << 1) - 1, 0, 1]))
        }
        other => gen_nonnull(t, other, vcfg),
    }
}

fn stat_leaf_type(t: &mut Tape) -> LType {
    use LType::*;
    let dec = |t: &mut Tape| -> LType {
        let (width, p) = *t.pick(&[(128u16, 38u8), (32, 9), (64, 18), (128, 9), (128, 18), (128, 20), (256, 76), (256, 40), (256, 30), (256, 9), (64, 5), (128, 3)]);
        let s = *t.pick(&[0i8, 2, 1]);
        Decimal { width, p, s: s.min(p as i8) }
    };
    let enc = |t: &mut Tape| *t.pick(&[Enc::O32, Enc::O64, Enc::View]);
    match t.below(24) {
        0 => Bool,
        1 => Int { bits: *t.pick(&[32u8, 8, 16, 64]), signed: true },
        2 | 3 => Int { bits: *t.pick(&[32u8, 64, 8, 16]), signed: false },
        4 => F64,
        5 => F32,
        6 => F16,
        7 | 8 => dec(t),
        9 | 10 | 11 => Utf8(enc(t)),
        12 | 13 => Binary(enc(t)),
        14 => FixedBinary(*t.pick(&[4, 1, 3, 16, 7])),
        15 => t.pick(&[IntervalYM, IntervalDT]).clone(),
        16 => t.pick(&[Date32, Date64, Duration(Unit::Ms)]).clone(),
        17 => t.pick(&[Time32(Unit::S), Time32(Unit::Ms), Time64(Unit::Us), Time64(Unit::Ns)]).clone(),
        18 => Timestamp(t.pick(&[Unit::S, Unit::Ms, Unit::Us, Unit::Ns]).clone(), if t.bool() { Some("UTC".into()) } else { None }),
        19 => Dict { kbits: *t.pick(&[32u8, 16]), ksigned: true, value: Box::new(t.pick(&[Utf8(Enc::O32), Int { bits: 32, signed: false }, F64, Binary(Enc::O32), Int { bits: 64, signed: true }]).clone()) },
        20 => F64,
        21 => Utf8(Enc::O32),
        22 => Int { bits: 64, signed: false },
        _ => Null,
    }
}

#[derive(Clone, Copy, Debug, PartialEq)]
enum Style {
    Random,
    Asc,
    Desc,
    Const,
    Few,
}

/// sequence of `n` optional leaf values: style, nulls, null runs, NaN runs
fn gen_leaf_seq(t: &mut Tape, ty: &LType, phys_hint: Phys, n: usize, nullable: bool, cut: usize, page_rows: usize, vcfg: &ValCfg) -> (Vec<LValue>, Style) {
    let style = match t.below(10) {
        0 | 1 | 2 => Style::Asc,
        3 | 4 => Style::Desc,
        5 => Style::Const,
        6 => Style::Few,
        _ => Style::Random,
    };
    if matches!(ty, LType::Null) {
        return (vec![LValue::Null; n], style);
    }
    let mut vals: Vec<LValue> = match style {
        Style::Const => {
            let v = gen_corner_value(t, ty, cut, vcfg);
            vec![v; n]
        }
        Style::Few => {
            let pool: Vec<LValue> = (0..1 + t.below(4)).map(|_| gen_corner_value(t, ty, cut, vcfg)).collect();
            (0..n).map(|_| t.pick(&pool).clone()).collect()
        }
        _ => (0..n).map(|_| gen_corner_value(t, ty, cut, vcfg)).collect(),
    };
    if matches!(style, Style::Asc | Style::Desc) {
        let ord = order_of(ty, phys_hint);
        let tl = match ty.denoted() {
            LType::Decimal { width, .. } => (*width / 8) as usize,
            LType::FixedBinary(w) => *w as usize,
            _ => 0,
        };
        let mut keyed: Vec<(PV, LValue)> = vals.into_iter().map(|v| (to_pv(ty, phys_hint, tl, &v), v)).collect();
        keyed.sort_by(|a, b| ref_cmp(ord, &a.0, &b.0));
        if style == Style::Desc {
            keyed.reverse();
        }
        vals = keyed.into_iter().map(|x| x.1).collect();
    }
    // NaN runs (float columns): all-NaN pages
    if matches!(ty.denoted(), LType::F16 | LType::F32 | LType::F64) && n > 0 && t.chance(110) {
        for _ in 0..1 + t.below(2) {
            let start = t.below(n);
            let len = 1 + t.below(2 * page_rows + 1);
            let neg = t.bool();
            for v in vals.iter_mut().skip(start).take(len) {
                *v = match ty.denoted() {
                    LType::F16 => LValue::F16(if neg { 0xfe00 } else { 0x7e01 }),
                    LType::F32 => LValue::F32(if neg { 0xffc0_0000 } else { 0x7fc0_0001 }),
                    _ => LValue::F64(if neg { 0xfff8_0000_0000_0000 } else { 0x7ff8_0000_0000_0001 }),
                };
            }
        }
    }
    if nullable && n > 0 {
        match t.below(6) {
            0 => {}
            1 => {
                for v in vals.iter_mut() {
                    *v = LValue::Null;
                }
            }
            k => {
                let p = if k == 2 { 16 } else { 70 };
                for v in vals.iter_mut() {
                    if t.chance(p) {
                        *v = LValue::Null;
                    }
                }
                // null runs: all-null pages between ordered pages
                for _ in 0..t.below(3) {
                    let start = t.below(n);
                    let len = 1 + t.below(2 * page_rows + 1);
                    for v in vals.iter_mut().skip(start).take(len) {
                        *v = LValue::Null;
                    }
                }
            }
        }
    }
    (vals, style)
}

#[derive(Clone, Debug)]
enum Shape {
    Flat(LType),
    List(LType),
    Struct(LType, LType),
    ListStruct(LType, LType),
}

fn phys_guess(ty: &LType) -> Phys {
    use LType::*;
    match ty.denoted() {
        Bool => Phys::BOOLEAN,
        Int { bits, .. } if *bits <= 32 => Phys::INT32,
        Int { .. } => Phys::INT64,
        F32 => Phys::FLOAT,
        F64 => Phys::DOUBLE,
        Decimal { p, .. } if *p <= 9 => Phys::INT32,
        Decimal { p, .. } if *p <= 18 => Phys::INT64,
        Date32 | Time32(_) | Null => Phys::INT32,
        Date64 | Time64(_) | Timestamp(..) | Duration(_) => Phys::INT64,
        Utf8(_) | Binary(_) => Phys::BYTE_ARRAY,
        _ => Phys::FIXED_LEN_BYTE_ARRAY,
    }
}

fn has_any_null(v: &LValue) -> bool {
    match v {
        LValue::Null => true,
        LValue::Struct(xs) => xs.iter().any(has_any_null),
        _ => false,
    }
}

/// Reported finding C07-nested-null-page: the writer flags a page of a repeated column as "null page" when
/// #null entries == #rows even if it holds values (e.g. rows [null, null], [5]).  Rows with several items are
/// therefore kept free of nulls (a row is cut after its first item otherwise), which makes that coincidence
/// impossible; returns whether anything was cut.
fn purify_rows(rows: &mut [LValue]) -> bool {
    let mut cut = false;
    for r in rows.iter_mut() {
        if let LValue::List(items) = r {
            if items.len() > 1 && items.iter().any(has_any_null) {
                items.truncate(1);
                cut = true;
            }
        }
    }
    cut
}

/// column field + logical rows for a shape
fn gen_shape_column(t: &mut Tape, name: &str, shape: &Shape, n: usize, cut: usize, page_rows: usize) -> (LField, Vec<LValue>, Vec<Style>) {
    let vcfg = ValCfg { max_str: 12, ..ValCfg::default() };
    let nullable_leaf = |t: &mut Tape, ty: &LType| matches!(ty, LType::Null) || !t.chance(48);
    match shape {
        Shape::Flat(ty) => {
            let nullable = nullable_leaf(t, ty);
            let (vals, st) = gen_leaf_seq(t, ty, phys_guess(ty), n, nullable, cut, page_rows, &vcfg);
            (LField::new(name, ty.clone(), nullable), vals, vec![st])
        }
        Shape::List(ty) => {
            let item_nullable = nullable_leaf(t, ty);
            let list_nullable = !t.chance(64);
            // decide list sizes first, then one sorted/styled flattened sequence
            let sizes: Vec<Option<usize>> = (0..n).map(|_| if list_nullable && t.chance(30) { None } else { Some(*t.pick(&[1usize, 0, 2, 3, 1, 4])) }).collect();
            let total: usize = sizes.iter().map(|s| s.unwrap_or(0)).sum();
            let (flat, st) = gen_leaf_seq(t, ty, phys_guess(ty), total, item_nullable, cut, page_rows, &vcfg);
            let mut it = flat.into_iter();
            let rows: Vec<LValue> = sizes.iter().map(|s| match s {
                None => LValue::Null,
                Some(k) => LValue::List((0..*k).map(|_| it.next().unwrap()).collect()),
            }).collect();
            let enc = *t.pick(&[ListEnc::O32, ListEnc::O64, ListEnc::V32]);
            (LField::new(name, LType::List(Box::new(LField::new("item", ty.clone(), item_nullable)), enc), list_nullable), rows, vec![st])
        }
        Shape::Struct(a, b) => {
            let (na, nb) = (nullable_leaf(t, a), nullable_leaf(t, b));
            let s_nullable = !t.chance(64);
            let (va, sa) = gen_leaf_seq(t, a, phys_guess(a), n, na, cut, page_rows, &vcfg);
            let (vb, sb) = gen_leaf_seq(t, b, phys_guess(b), n, nb, cut, page_rows, &vcfg);
            let rows: Vec<LValue> = va.into_iter().zip(vb).map(|(x, y)| if s_nullable && t.chance(30) { LValue::Null } else { LValue::Struct(vec![x, y]) }).collect();
            (LField::new(name, LType::Struct(vec![LField::new("a", a.clone(), na), LField::new("b", b.clone(), nb)]), s_nullable), rows, vec![sa, sb])
        }
        Shape::ListStruct(a, b) => {
            let (na, nb) = (nullable_leaf(t, a), nullable_leaf(t, b));
            let s_nullable = !t.chance(64);
            let list_nullable = !t.chance(64);
            let sizes: Vec<Option<usize>> = (0..n).map(|_| if list_nullable && t.chance(30) { None } else { Some(*t.pick(&[1usize, 0, 2, 3, 1])) }).collect();
            let total: usize = sizes.iter().map(|s| s.unwrap_or(0)).sum();
            let (va, sa) = gen_leaf_seq(t, a, phys_guess(a), total, na, cut, page_rows, &vcfg);
            let (vb, sb) = gen_leaf_seq(t, b, phys_guess(b), total, nb, cut, page_rows, &vcfg);
            let mut it = va.into_iter().zip(vb);
            let rows: Vec<LValue> = sizes.iter().map(|s| match s {
                None => LValue::Null,
                Some(k) => LValue::List((0..*k).map(|_| {
                    let (x, y) = it.next().unwrap();
                    if s_nullable && t.chance(30) { LValue::Null } else { LValue::Struct(vec![x, y]) }
                }).collect()),
            }).collect();
            let sty = LType::Struct(vec![LField::new("a", a.clone(), na), LField::new("b", b.clone(), nb)]);
            (LField::new(name, LType::List(Box::new(LField::new("item", sty, s_nullable)), ListEnc::O32), list_nullable), rows, vec![sa, sb])
        }
    }
}

fn corner_classes(c: &mut Case, ord: Ord_, vals: &[PV]) -> bool {
    let mut corner = false;
    for v in vals {
        let k = match (ord, v) {
            (Ord_::Signed, PV::I32(x)) if *x < 0 => Some("corner:negative"),
            (Ord_::Signed, PV::I64(x)) if *x < 0 => Some("corner:negative"),
            (Ord_::Unsigned, PV::I32(x)) if *x < 0 => Some("corner:unsigned_above_signed_max"),
            (Ord_::Unsigned, PV::I64(x)) if *x < 0 => Some("corner:unsigned_above_signed_max"),
            (Ord_::TotalF32, PV::F32(x)) if f32::from_bits(*x).is_nan() => Some("corner:nan"),
            (Ord_::TotalF64, PV::F64(x)) if f64::from_bits(*x).is_nan() => Some("corner:nan"),
            (Ord_::TotalF32, PV::F32(x)) if *x == 0x8000_0000 => Some("corner:neg_zero"),
            (Ord_::TotalF64, PV::F64(x)) if *x == 0x8000_0000_0000_0000 => Some("corner:neg_zero"),
            (Ord_::TotalF16, PV::Bytes(b)) if is_nan(Ord_::TotalF16, &PV::Bytes(b.clone())) => Some("corner:nan"),
            (Ord_::TotalF16, PV::Bytes(b)) if b == &vec![0x00, 0x80] => Some("corner:neg_zero"),
            (Ord_::DecimalBE, PV::Bytes(b)) if b.first().map(|x| x & 0x80 != 0).unwrap_or(false) => Some("corner:negative_decimal_bytes"),
            (Ord_::UnsignedBytes, PV::Bytes(b)) if b.last() == Some(&0xff) => Some("corner:ff_tail"),
            (Ord_::UnsignedBytes, PV::Bytes(b)) if b.iter().any(|x| *x >= 0x80) => Some("corner:high_bytes"),
            _ => None,
        };
        if let Some(k) = k {
            c.class(k);
            corner = true;
        }
    }
    corner
}

fn ord_class(o: Ord_) -> &'static str {
    match o {
        Ord_::Bool => "order:bool",
        Ord_::Signed => "order:signed",
        Ord_::Unsigned => "order:unsigned",
        Ord_::TotalF32 | Ord_::TotalF64 | Ord_::TotalF16 => "order:total_float",
        Ord_::DecimalBE => "order:decimal_bytes",
        Ord_::UnsignedBytes => "order:unsigned_bytes",
        Ord_::Undefined => "order:undefined",
    }
}

fn label_outcome(c: &mut Case, fo: &FileOutcome, corner: bool) {
    for (b, k) in [
        (fo.chunk_stats, "chunk_stats"),
        (fo.column_index, "column_index"),
        (fo.offset_index, "offset_index"),
        (fo.bloom, "bloom_checked"),
        (fo.page_header_stats, "page_header_stats"),
        (fo.truncated, "truncated_bound"),
        (fo.boundary_claims > 0, "boundary_order_claimed"),
        (fo.null_pages > 0, "null_page"),
        (fo.converter, "converter_values"),
        (fo.multi_page_with_null, "pages>=2_with_null"),
        (fo.empty_pages > 0, "empty_data_page(cdc)"),
    ] {
        if b {
            c.class(k);
        }
    }
    // NT: a chunk with >=2 pages and >=1 null whose values contain a sort-order corner, or a truncation happened
    if fo.multi_page_with_null && (corner || fo.truncated) {
        c.nontrivial();
    }
    c.evals(fo.evals.max(1));
}

fn sub_arrow(c: &mut Case) -> CaseResult {
    let strict = c.strict;
    let t = &mut c.tape;
    let total = match t.below(16) {
        0 => t.below(4),
        15 => 300 + t.below(1500),
        14 => 100 + t.below(200),
        _ => 1 + t.below(100),
    };
    let ncols = if total > 300 { 1 } else { 1 + t.below(3) };
    let mut shapes = vec![];
    for _ in 0..ncols {
        let a = stat_leaf_type(t);
        let shape = match t.below(12) {
            0 => Shape::List(a),
            1 => Shape::Struct(a, stat_leaf_type(t)),
            2 => Shape::ListStruct(a, stat_leaf_type(t)),
            _ => Shape::Flat(a),
        };
        shapes.push(shape);
    }
    // field skeleton first (types only) so that the properties (truncate lengths, page rows) are known to the value generator
    let cut_choice = *t.pick(&[0usize, 1, 2, 3, 4, 5, 64]);
    let page_rows_guess = 1 + t.below(40);
    let mut fields = vec![];
    let mut cols_rows = vec![];
    let mut styles = vec![];
    let mut purified = false;
    for (i, sh) in shapes.iter().enumerate() {
        let cut = if cut_choice == 0 { *t.pick(&[1usize, 2, 3, 4, 5, 64]) } else { cut_choice };
        let (f, mut rows, st) = gen_shape_column(t, &format!("c{}", i), sh, total, cut, page_rows_guess);
        if !strict && purify_rows(&mut rows) {
            purified = true;
        }
        fields.push(f);
        cols_rows.push(rows);
        styles.extend(st);
    }
    let schema = schema_of(&fields, None);
    let descr = parquet_schema(&schema)?;
    // CDC findings of C05 (list views, Boolean RLE encoder on the explicit empty page): CDC stays off for such schemas
    let has_listview = fields.iter().any(|f| f.ty.any(&|x| matches!(x, LType::List(_, ListEnc::V32 | ListEnc::V64) | LType::Bool)));
    let mut leaves = vec![];
    for f in &fields {
        leaves_of(&f.ty, &mut leaves);
    }
    ensure!(leaves.len() == descr.num_columns(), "harness:leaves", "leaf walk {} != parquet columns {}", leaves.len(), descr.num_columns());
    let (props, facts, pdesc) = gen_props(t, &descr, &leaves, &PropOpts { stats_focus: true, rows: total, no_cdc: has_listview && !strict });
    // write in 1..=3 batches with fancy layouts
    let nb = 1 + t.below(3);
    let mut cuts: Vec<usize> = (0..nb - 1).map(|_| t.below(total + 1)).collect();
    cuts.sort();
    cuts.push(total);
    let lay = Lay::fancy();
    let mut batches: Vec<RecordBatch> = vec![];
    let mut flush = vec![];
    let mut prev = 0;
    for cu in cuts {
        let lb: LBatch = cols_rows.iter().map(|col| col[prev..cu].to_vec()).collect();
        batches.push(realise_batch(t, &schema, &fields, &lb, cu - prev, &lay));
        flush.push(rare(t, 40));
        prev = cu;
    }
    c.describe(json!({
        "schema": fields.iter().map(|f| format!("{}: {}{}", f.name, f.ty.arrow(), if f.nullable { "" } else { " not null" })).collect::<Vec<_>>(),
        "rows": total,
        "styles": format!("{:?}", styles),
        "batches": batches.iter().map(|b| b.num_rows()).collect::<Vec<_>>(),
        "props": pdesc,
        "values": cols_rows.iter().map(|col| short_vec(col)).collect::<Vec<_>>(),
    }));

    // ---- truth per leaf
    let mut truths: Vec<ColTruth> = vec![];
    let mut li = 0usize;
    for (f, rows) in fields.iter().zip(&cols_rows) {
        let mut fl = vec![];
        leaves_of(&f.ty, &mut fl);
        let n = fl.len();
        let mut per_leaf: Vec<Vec<(usize, Vec<PV>)>> = vec![vec![]; n];
        for v in rows {
            let mut rt = vec![RowTruth::default(); n];
            shred(&f.ty, v, &mut rt, 0);
            for (k, r) in rt.into_iter().enumerate() {
                let d = descr.column(li + k);
                let pvs = r.vals.iter().map(|x| to_pv(&fl[k], d.physical_type(), d.type_length().max(0) as usize, x)).collect();
                per_leaf[k].push((r.entries, pvs));
            }
        }
        for (k, rows) in per_leaf.into_iter().enumerate() {
            let d = descr.column(li + k);
            let leaf = &fl[k];
            let flat = n == 1 && !f.ty.is_nested();
            let conv_ok = !matches!(leaf.denoted(), LType::Null | LType::IntervalYM | LType::IntervalDT | LType::Duration(_));
            truths.push(ColTruth {
                name: if flat { f.name.clone() } else { d.path().string() },
                ord: order_of(leaf, d.physical_type()),
                utf8: matches!(leaf.denoted(), LType::Utf8(_)),
                rows,
                bloom: facts.cols[li + k].bloom,
                conv: if conv_ok { Some((Field::new(d.name(), leaf.denoted().arrow(), true), leaf.denoted().clone())) } else { None },
                top_level_flat: flat,
            });
        }
        li += n;
    }

    if purified {
        c.exclude("C07-nested-null-page");
    }
    if has_listview && !strict {
        c.exclude("C05-cdc-listview|bool-rle");
    }
    let (bytes, _meta) = write_serial(&schema, &batches, &flush, props)?;
    let fo = verify_file(&bytes, &truths, &facts, total)?;

    let mut corner = false;
    for tr in &truths {
        c.class(ord_class(tr.ord));
        let all: Vec<PV> = tr.rows.iter().flat_map(|r| r.1.iter().cloned()).collect();
        corner |= corner_classes(c, tr.ord, &all);
        if !tr.top_level_flat {
            c.class("nested_leaf");
        }
    }
    for s in &styles {
        c.class(format!("style:{:?}", s));
    }
    if facts.stats_truncate.map(|l| l <= 5).unwrap_or(false) || facts.index_truncate.map(|l| l <= 5).unwrap_or(false) {
        c.class("short_truncate_length");
    }
    label_outcome(c, &fo, corner);
    Ok(())
}

// ------------------------------------------------------------------------------------------------
// low-level writer: DECIMAL on BYTE_ARRAY with varying byte lengths, BYTE_ARRAY / UTF8, UINT_32

fn minimal_be(v: i128) -> Vec<u8> {
    let full = v.to_be_bytes();
    let mut i = 0;
    while i < 15 {
        let sign_ok = if v < 0 { full[i] == 0xff && full[i + 1] & 0x80 != 0 } else { full[i] == 0 && full[i + 1] & 0x80 == 0 };
        if sign_ok { i += 1 } else { break }
    }
    full[i..].to_vec()
}

fn sub_lowlevel(c: &mut Case) -> CaseResult {
    let strict = c.strict;
    let mut excluded_trunc = false;
    let t = &mut c.tape;
    let kind = t.below(4);
    let (msg, ord, utf8, phys) = match kind {
        0 | 1 => ("message m { optional binary v (DECIMAL(38,2)); }", Ord_::DecimalBE, false, Phys::BYTE_ARRAY),
        2 => ("message m { optional binary v (UTF8); }", Ord_::UnsignedBytes, true, Phys::BYTE_ARRAY),
        _ => ("message m { optional int32 v (UINT_32); }", Ord_::Unsigned, false, Phys::INT32),
    };
    let n = match t.below(8) {
        0 => t.below(3),
        7 => 100 + t.below(300),
        _ => 1 + t.below(80),
    };
    let cut = *t.pick(&[1usize, 2, 3, 4, 5, 64]);
    let style = *t.pick(&[Style::Random, Style::Asc, Style::Desc, Style::Random, Style::Few]);
    let lim = pow10_i128(38) - 1;
    let mut vals: Vec<PV> = (0..n)
        .map(|_| match kind {
            1 if !strict => {
                // mixed byte lengths inside the region where compare_greater_byte_array_decimals is right on the
                // unchanged tree: every value of two or more bytes starts with a byte that is NOT its sign's extension
                // byte (so the longer of two same-sign values always has significant lead bytes and the unaligned
                // a[1..] > b[1..] fall-through of the reported finding is never reached); one-byte values are free
                let len = match t.below(6) {
                    0 => 1,
                    1 | 2 => 1 + t.below(3),
                    3 | 4 => 1 + t.below(6),
                    _ => 1 + t.below(15),
                };
                let neg = t.chance(128);
                let mut b: Vec<u8> = (0..len).map(|_| *t.pick(&[0u8, 1, 0x7f, 0x80, 0xfe, 0xff, 0x35, 0xc2]) ^ (t.below(3) as u8)).collect();
                if len >= 2 {
                    b[0] = if neg { 0x80 + (b[0] % 0x7f) } else { 1 + (b[0] % 0x7f) };
                } else if neg {
                    b[0] |= 0x80;
                } else {
                    b[0] &= 0x7f;
                }
                PV::Bytes(b)
            }
            0 | 1 => {
                let v = if t.chance(160) { gen_int_in(t, -70000, 70000) } else { gen_int_in(t, -lim, lim) };
                let mut b = minimal_be(v);
                // redundant sign-extension bytes: equal numbers with different byte lengths
                let extra = *t.pick(&[0usize, 0, 1, 2, 5]);
                let fill = if v < 0 { 0xffu8 } else { 0 };
                // Reported finding C07-decimal-bytearray-length-compare: compare_greater_byte_array_decimals
                // mis-orders values of different byte lengths; unless replaying every value gets the same length
                let extra = if strict { extra.min(16 - b.len()) } else { 16 - b.len() };
                for _ in 0..extra {
                    b.insert(0, fill);
                }
                PV::Bytes(b)
            }
            2 => PV::Bytes(gen_edge_string(t, cut).into_bytes()),
            _ => PV::I32(*t.pick(&[0i32, 1, -1, i32::MIN, i32::MAX, 5, -5, 100, i32::MIN + 1]) ^ (t.below(4) as i32)),
        })
        .collect();
    if matches!(style, Style::Asc | Style::Desc) {
        vals.sort_by(|a, b| ref_cmp(ord, a, b));
        if style == Style::Desc {
            vals.reverse();
        }
    }
    let page_rows = 1 + t.below(12);
    let mut def: Vec<i16> = (0..n).map(|_| if t.chance(40) { 0 } else { 1 }).collect();
    for _ in 0..t.below(3) {
        if n > 0 {
            let s = t.below(n);
            for d in def.iter_mut().skip(s).take(1 + t.below(2 * page_rows)) {
                *d = 0;
            }
        }
    }
    let schema = Arc::new(perr("parse_message_type", parse_message_type(msg))?);
    let descr = SchemaDescriptor::new(schema.clone());
    let leaves = vec![LType::Binary(Enc::O32)];
    let (_p, mut facts, pdesc) = gen_props(t, &descr, &leaves, &PropOpts { stats_focus: true, rows: n, no_cdc: false });
    // rebuild the properties without explicit encodings that are illegal for INT32 (the leaf type above is a stand-in)
    let v2 = facts.v2;
    // Reported finding C07-decimal-bytearray-truncated: min/max of a DECIMAL stored as BYTE_ARRAY are truncated like
    // strings (can_truncate_value() only exempts FIXED_LEN_BYTE_ARRAY decimals), which breaks the bound for
    // two's-complement numbers. Truncation lengths below the longest value (16 bytes) are avoided unless replaying.
    let mut stats_truncate = facts.stats_truncate;
    let mut index_truncate = facts.index_truncate;
    if kind <= 1 && !strict {
        if stats_truncate.map(|l| l < 16).unwrap_or(false) || index_truncate.map(|l| l < 16).unwrap_or(false) {
            excluded_trunc = true;
        }
        stats_truncate = stats_truncate.map(|l| l.max(16));
        index_truncate = index_truncate.map(|l| l.max(16));
    }
    facts.stats_truncate = stats_truncate;
    facts.index_truncate = index_truncate;
    let bloom = t.chance(128);
    let mut b = WriterProperties::builder()
        .set_writer_version(if v2 { parquet::file::properties::WriterVersion::PARQUET_2_0 } else { parquet::file::properties::WriterVersion::PARQUET_1_0 })
        .set_data_page_row_count_limit(page_rows)
        .set_write_batch_size(1 + t.below(page_rows))
        .set_dictionary_enabled(t.bool())
        .set_statistics_enabled(EnabledStatistics::Page)
        .set_write_page_header_statistics(t.bool())
        .set_statistics_truncate_length(stats_truncate)
        .set_column_index_truncate_length(index_truncate);
    if bloom {
        b = b.set_bloom_filter_enabled(true).set_bloom_filter_max_ndv(*t.pick(&[10u64, 1, 1000])).set_bloom_filter_fpp(*t.pick(&[0.05f64, 0.5, 0.001]));
    }
    let props = Arc::new(b.build());
    facts.cols[0].bloom = bloom;
    facts.cols[0].stats = EnabledStatistics::Page;
    let nrg = 1 + t.below(2);
    let split = if nrg == 2 { t.below(n + 1) } else { n };
    c.describe(json!({"schema": msg, "rows": n, "style": format!("{:?}", style), "page_rows": page_rows, "row_groups": nrg, "v2": v2, "stats_truncate": stats_truncate, "index_truncate": index_truncate, "bloom": bloom,
        "values": vals.iter().zip(&def).take(16).map(|(v, d)| if *d == 1 { format!("{:?}", v) } else { "null".into() }).collect::<Vec<_>>(), "ignored": pdesc["version"]}));

    let mut buf: Vec<u8> = vec![];
    {
        let mut w = perr("SerializedFileWriter::new", no_panic("SerializedFileWriter::new", || SerializedFileWriter::new(&mut buf, schema.clone(), props.clone()))?)?;
        for (a, z) in [(0usize, split), (split, n)] {
            if a == z {
                continue;
            }
            let mut rg = perr("next_row_group", w.next_row_group())?;
            if let Some(mut cw) = perr("next_column", rg.next_column())? {
                let d = &def[a..z];
                let present: Vec<&PV> = vals[a..z].iter().zip(d).filter(|(_, d)| **d == 1).map(|(v, _)| v).collect();
                let r = no_panic("write_batch", || match phys {
                    Phys::BYTE_ARRAY => {
                        let xs: Vec<ByteArray> = present.iter().map(|v| if let PV::Bytes(b) = v { ByteArray::from(b.clone()) } else { ByteArray::new() }).collect();
                        cw.typed::<ByteArrayType>().write_batch(&xs, Some(d), None)
                    }
                    _ => {
                        let xs: Vec<i32> = present.iter().map(|v| if let PV::I32(x) = v { *x } else { 0 }).collect();
                        cw.typed::<Int32Type>().write_batch(&xs, Some(d), None)
                    }
                })?;
                perr("write_batch", r)?;
                perr("column close", cw.close())?;
            }
            perr("row group close", rg.close())?;
        }
        perr("SerializedFileWriter::close", no_panic("SerializedFileWriter::close", || w.close())?)?;
    }
    if excluded_trunc {
        c.exclude("C07-decimal-bytearray-truncated");
    }
    if kind == 0 && !strict {
        c.exclude("C07-decimal-bytearray-length-compare");
    }
    if kind == 1 && !strict {
        c.class("lowlevel:decimal_mixed_lengths_significant_lead");
    }
    let bytes = Bytes::from(buf);
    let rows: Vec<(usize, Vec<PV>)> = vals.iter().zip(&def).map(|(v, d)| (1usize, if *d == 1 { vec![v.clone()] } else { vec![] })).collect();
    let conv_ty = match kind {
        0 | 1 => LType::Decimal { width: 128, p: 38, s: 2 },
        2 => LType::Utf8(Enc::O32),
        _ => LType::Int { bits: 32, signed: false },
    };
    let truth = ColTruth {
        name: "v".into(),
        ord,
        utf8,
        rows,
        bloom,
        // decimals in BYTE_ARRAY keep their written length: compare through canonical 16-byte values
        conv: Some((Field::new("v", conv_ty.arrow(), true), if kind <= 1 { LType::Decimal { width: 128, p: 38, s: 2 } } else { conv_ty.clone() })),
        top_level_flat: true,
    };
    // the converter hands decimals back as i128: give to_pv a 16 byte target for this column
    let fo = verify_file_lowlevel(&bytes, truth, &facts, n, kind <= 1)?;
    c.class(ord_class(ord));
    c.class(format!("style:{:?}", style));
    let present: Vec<PV> = vals.iter().zip(&def).filter(|(_, d)| **d == 1).map(|(v, _)| v.clone()).collect();
    let mut corner = corner_classes(c, ord, &present);
    if kind <= 1 {
        let lens: std::collections::BTreeSet<usize> = present.iter().map(|v| if let PV::Bytes(b) = v { b.len() } else { 0 }).collect();
        if lens.len() >= 2 {
            c.class("corner:decimal_mixed_lengths");
            corner = true;
        }
    }
    label_outcome(c, &fo, corner);
    Ok(())
}

fn verify_file_lowlevel(bytes: &Bytes, truth: ColTruth, facts: &PropFacts, n: usize, _decimal: bool) -> Result<FileOutcome, Fail> {
    verify_file(bytes, &[truth], facts, n)
}

// ------------------------------------------------------------------------------------------------
// minimal reproductions of the reported findings (judged only in replay / known-finding mode)

const N_REPRO: u64 = 3;

fn lowlevel_decimal_file(vals: &[Vec<u8>], trunc: Option<usize>) -> Result<Bytes, Fail> {
    let schema = Arc::new(perr("parse_message_type", parse_message_type("message m { optional binary v (DECIMAL(38,2)); }"))?);
    let props = Arc::new(WriterProperties::builder().set_statistics_enabled(EnabledStatistics::Page).set_statistics_truncate_length(trunc).set_column_index_truncate_length(trunc).build());
    let mut buf: Vec<u8> = vec![];
    {
        let mut w = perr("SerializedFileWriter::new", SerializedFileWriter::new(&mut buf, schema, props))?;
        let mut rg = perr("next_row_group", w.next_row_group())?;
        if let Some(mut cw) = perr("next_column", rg.next_column())? {
            let xs: Vec<ByteArray> = vals.iter().map(|b| ByteArray::from(b.clone())).collect();
            let d = vec![1i16; xs.len()];
            perr("write_batch", cw.typed::<ByteArrayType>().write_batch(&xs, Some(&d), None))?;
            perr("column close", cw.close())?;
        }
        perr("row group close", rg.close())?;
        perr("close", w.close())?;
    }
    Ok(Bytes::from(buf))
}

fn sub_repro(c: &mut Case) -> CaseResult {
    if !c.strict {
        c.class("repro:skipped(not replaying)");
        return Ok(());
    }
    let facts = PropFacts { v2: false, max_rg_rows: None, max_rg_bytes: None, stats_truncate: None, index_truncate: None, page_header_stats: false, offset_index_disabled: false, cdc: false, dict_limit_small: false, cols: vec![], non_default: false };
    let (key, r): (&str, Result<FileOutcome, Fail>) = match c.index {
        0 => {
            // List<Int32>: rows [null, null] and [5] in one page: 2 null entries == 2 rows => flagged as null page
            let item = LField::new("item", LType::Int { bits: 32, signed: true }, true);
            let f = LField::new("c0", LType::List(Box::new(item), ListEnc::O32), true);
            let rows = vec![LValue::List(vec![LValue::Null, LValue::Null]), LValue::List(vec![LValue::Int(5)])];
            let schema = schema_of(&[f.clone()], None);
            let batch = realise_batch(&mut c.tape, &schema, &[f.clone()], &vec![rows.clone()], 2, &Lay::plain());
            let truth = ColTruth {
                name: "c0.list.item".into(),
                ord: Ord_::Signed,
                utf8: false,
                rows: vec![(2, vec![]), (1, vec![PV::I32(5)])],
                bloom: false,
                conv: None,
                top_level_flat: false,
            };
            let r = write_serial(&schema, &[batch], &[false], WriterProperties::builder().build()).and_then(|(bytes, _)| verify_file(&bytes, &[truth], &facts, 2));
            ("C07-nested-null-page", r)
        }
        k => {
            let (key, vals, trunc): (&str, Vec<Vec<u8>>, Option<usize>) = if k == 1 {
                // -70000 = fe ee 90: truncated to [fe] = -2, which is not a lower bound
                ("C07-decimal-bytearray-truncated", vec![vec![0xfe, 0xee, 0x90], vec![0x01, 0x11, 0x70]], Some(1))
            } else {
                // -255 = ff 01 (two bytes) and -128 = 80 (one byte): the writer orders -255 above -128
                ("C07-decimal-bytearray-length-compare", vec![vec![0xff, 0x01], vec![0x80]], None)
            };
            let truth = ColTruth {
                name: "v".into(),
                ord: Ord_::DecimalBE,
                utf8: false,
                rows: vals.iter().map(|b| (1usize, vec![PV::Bytes(b.clone())])).collect(),
                bloom: false,
                conv: None,
                top_level_flat: true,
            };
            let n = vals.len();
            (key, lowlevel_decimal_file(&vals, trunc).and_then(|bytes| verify_file(&bytes, &[truth], &facts, n)))
        }
    };
    c.describe(json!({"finding": key}));
    match r {
        Ok(_) => {
            c.class("repro:not_reproduced");
            Ok(())
        }
        Err(f) => Err(Fail::new(key, format!("[{}] {}", f.sig, f.msg))),
    }
}

fn main() {
    Check::new(
        "C07",
        "exploration",
        "case = (columns over all sort orders incl. nested leaves, value sequence with style asc/desc/const/few/random + null and NaN runs, writer properties with 1..40 row pages, truncate lengths, statistics level, bloom filter); non-trivial = some chunk with >=2 pages and >=1 null whose values hit a sort-order corner (negative, unsigned above the signed range, NaN, -0, high/0xFF bytes, negative decimal bytes) or whose bounds were truncated",
    )
    .assume("ground truth = logical model shredded by this file + pages decoded sequentially without page index (ColumnReaderImpl::read_records over a one-page PageReader); both must agree before statistics are judged")
    .assume("null_count of nested columns counts level entries below the maximum definition level (parquet-java / arrow-cpp convention, also used by page header V2 num_nulls)")
    .assume("NaN-only or all-null pages/chunks: min/max not constrained; nan_count, distinct_count and histograms not judged; UNORDERED boundary order is never wrong; absent statistics are never wrong")
    .assume("IEEE 754 total order for FLOAT/DOUBLE/Float16 as declared by the file's ColumnOrder (checked: declared order == reference order of the type)")
    .sub(Sub::new("arrow", 15000, 200000, sub_arrow).tape(256, 8000).require(&[
        "order:signed", "order:unsigned", "order:total_float", "order:decimal_bytes", "order:unsigned_bytes", "order:bool", "order:undefined",
        "chunk_stats", "column_index", "offset_index", "bloom_checked", "page_header_stats", "truncated_bound", "boundary_order_claimed", "null_page", "converter_values", "nested_leaf",
        "corner:nan", "corner:neg_zero", "corner:unsigned_above_signed_max", "corner:negative", "corner:ff_tail", "corner:negative_decimal_bytes",
    ]))
    .sub(Sub::new("lowlevel", 4000, 40000, sub_lowlevel).tape(128, 3000).require(&["order:decimal_bytes", "order:unsigned", "corner:negative_decimal_bytes", "truncated_bound", "boundary_order_claimed"]))
    .sub(Sub::new("repro", 0, 0, sub_repro).enumerate(N_REPRO, N_REPRO))
    .run()
}
