//! C11 — the row format is order-preserving, injective and invertible.
#[path = "../order_model.rs"]
mod order_model;

use arrow_array::{Array, ArrayRef, BinaryArray};
use arrow_ord::ord::make_comparator;
use arrow_ord::sort::{LexicographicalComparator, SortColumn};
use arrow_row::{OwnedRow, Row, RowConverter, Rows, SortField};
use arrow_schema::SortOptions;
use order_model::*;
use serde_json::json;
use std::cmp::Ordering;
use std::collections::hash_map::DefaultHasher;
use std::hash::{Hash, Hasher};
use vp_engine::extract::extract;
use vp_engine::model::*;
use vp_engine::r#gen::*;
use vp_engine::realise::*;
use vp_engine::runner::*;
use vp_engine::tape::Tape;
use vp_engine::validate::check_valid;
use vp_engine::{ensure, fail};

/// order model of the row format: arrow-cmp semantics for every type; unions as the arrow-row docs describe them
const UM: UnionOrder = UnionOrder::RowFormat;

fn lay_of(t: &mut Tape) -> Lay {
    if t.chance(40) { Lay::plain() } else { Lay { fancy: true, dict_value_nulls: true, slice_chance: 128 } }
}

fn hash_of(r: &Row<'_>) -> u64 {
    let mut h = DefaultHasher::new();
    r.hash(&mut h);
    h.finish()
}

struct Schema {
    fields: Vec<LField>,
    opts: Vec<SortOptions>,
}
impl Schema {
    fn sort_fields(&self) -> Vec<SortField> {
        self.fields.iter().zip(&self.opts).map(|(f, o)| SortField::new_with_options(f.ty.arrow(), *o)).collect()
    }
    fn cmp(&self, a: &[LValue], b: &[LValue], um: UnionOrder) -> Ordering {
        for k in 0..self.fields.len() {
            match model_cmp(&self.fields[k].ty, &a[k], &b[k], self.opts[k], um) {
                Ordering::Equal => {}
                r => return r,
            }
        }
        Ordering::Equal
    }
    fn describe(&self) -> serde_json::Value {
        json!(self.fields.iter().zip(&self.opts).map(|(f, o)| format!("{} {}", f.ty.arrow(), opts_name(*o))).collect::<Vec<_>>())
    }
}

/// one generated batch: logical columns and their arrays
struct Batch {
    cols: Vec<Vec<LValue>>,
    arrays: Vec<ArrayRef>,
    n: usize,
}
impl Batch {
    fn tuple(&self, i: usize) -> Vec<LValue> {
        self.cols.iter().map(|c| c[i].clone()).collect()
    }
}

/// known findings of the row format that the generators avoid by construction (not in replay mode)
fn known_types(c: &mut Case, ty: &mut LType) {
    if c.strict {
        return;
    }
    if rewrite_known(ty) {
        c.exclude("row:union-decode");
    }
}

/// (see the report) decoding a union column: (1) dense unions whose type ids are not 0..n index `count[type_id]`
/// (lib.rs decode_column: `let field_idx = *type_id as usize`), (2) a union child that is a dictionary comes back
/// hydrated but the UnionArray is rebuilt with the original (dictionary) fields. Rewritten: ids 0..n, no dictionary
/// below a union.
fn rewrite_known(ty: &mut LType) -> bool {
    use LType::*;
    let mut hit = false;
    match ty {
        List(f, _) | FixedList(f, _) => hit |= rewrite_known(&mut f.ty),
        Struct(fs) => {
            for f in fs.iter_mut() {
                hit |= rewrite_known(&mut f.ty);
            }
        }
        Map { key, val, .. } => {
            hit |= rewrite_known(&mut key.ty);
            hit |= rewrite_known(&mut val.ty);
        }
        Union { dense, fields } => {
            for (k, f) in fields.iter_mut().enumerate() {
                hit |= rewrite_known(&mut f.1.ty);
                // (fixed finding union-dense-ids: dense unions keep their generated type ids)
                let _ = (k, &dense);
                if f.1.ty.any(&|t| matches!(t, Dict { .. })) {
                    strip_dict(&mut f.1.ty);
                    hit = true;
                }
            }
        }
        Ree { value, .. } => hit |= rewrite_known(&mut value.ty),
        _ => {}
    }
    hit
}
/// known finding: a union encoded under `descending` (directly, or below Struct / FixedSizeList which hand their
/// options down unchanged) only negates its type-id byte; the child bytes come from a converter built ascending and are
/// copied as they are, so values of one type still ascend. (Below List / Map / RunEndEncoded / Union the child
/// converter is ascending and the parent inverts the bytes, which is consistent.)
fn union_under_descending(ty: &LType, desc: bool) -> bool {
    use LType::*;
    match ty {
        Union { fields, .. } => desc || fields.iter().any(|f| union_under_descending(&f.1.ty, false)),
        Struct(fs) => fs.iter().any(|f| union_under_descending(&f.ty, desc)),
        FixedList(f, _) => union_under_descending(&f.ty, desc),
        List(f, _) => union_under_descending(&f.ty, false),
        Map { key, val, .. } => union_under_descending(&key.ty, false) || union_under_descending(&val.ty, false),
        Ree { value, .. } => union_under_descending(&value.ty, false),
        _ => false,
    }
}

fn strip_dict(ty: &mut LType) {
    use LType::*;
    match ty {
        Dict { value, .. } => {
            let v = (**value).clone();
            *ty = v;
            strip_dict(ty);
        }
        List(f, _) | FixedList(f, _) => strip_dict(&mut f.ty),
        Struct(fs) => fs.iter_mut().for_each(|f| strip_dict(&mut f.ty)),
        Map { key, val, .. } => {
            strip_dict(&mut key.ty);
            strip_dict(&mut val.ty);
        }
        Union { fields, .. } => fields.iter_mut().for_each(|f| strip_dict(&mut f.1.ty)),
        Ree { value, .. } => strip_dict(&mut value.ty),
        _ => {}
    }
}

fn gen_schema(c: &mut Case, max_fields: usize) -> Schema {
    let k = 1 + c.tape.below(max_fields);
    let cfg = TypeCfg::all();
    let mut fields = vec![];
    let mut opts = vec![];
    for i in 0..k {
        let mut ty = if k > 1 && c.tape.chance(110) { gen_type(&mut c.tape, &TypeCfg::flat()) } else { gen_type_where(&mut c.tape, &cfg, &row_supported) };
        if !row_supported(&ty) {
            ty = LType::Utf8(Enc::O32);
        }
        known_types(c, &mut ty);
        let mut o = sort_opts_of(&mut c.tape);
        if !c.strict && union_under_descending(&ty, o.descending) {
            c.exclude("row:union-descending");
            o.descending = false;
        }
        fields.push(LField::new(&format!("c{i}"), ty, true));
        opts.push(o);
    }
    Schema { fields, opts }
}

fn new_converter(s: &Schema) -> Result<RowConverter, Fail> {
    let sf = s.sort_fields();
    ensure!(no_panic("supports_fields", || RowConverter::supports_fields(&sf))?, "supports_fields:false", "supports_fields is false for documented-supported fields {}", s.describe());
    match no_panic("RowConverter::new", || RowConverter::new(sf))? {
        Ok(c) => Ok(c),
        Err(e) => Err(Fail::new("RowConverter::new:err", format!("RowConverter::new rejected {}: {}", s.describe(), e))),
    }
}

/// where a `Row` of the final comparison set comes from
struct Entry<'a> {
    row: Row<'a>,
    tuple: usize,
    src: &'static str,
}

fn check_rows_api(rows: &Rows, what: &str) -> CaseResult {
    let n = rows.num_rows();
    let lens: Vec<usize> = rows.lengths().collect();
    ensure!(lens.len() == n, "rows:lengths", "{}: lengths() yields {} items for {} rows", what, lens.len(), n);
    ensure!(rows.iter().len() == n, "rows:iter-len", "{}: iter().len() {} != {}", what, rows.iter().len(), n);
    let fwd: Vec<&[u8]> = rows.iter().map(|r| r.data()).collect();
    let mut back: Vec<&[u8]> = rows.iter().rev().map(|r| r.data()).collect();
    back.reverse();
    ensure!(fwd == back, "rows:iter-rev", "{}: reverse iteration differs", what);
    for i in 0..n {
        let r = no_panic("Rows::row", || rows.row(i))?;
        ensure!(rows.row_len(i) == r.data().len() && lens[i] == r.data().len(), "rows:row_len", "{}: row {} has {} bytes, row_len {} lengths {}", what, i, r.data().len(), rows.row_len(i), lens[i]);
        ensure!(fwd[i] == r.data(), "rows:iter", "{}: iter() row {} differs from row({})", what, i, i);
        ensure!(r.as_ref() == r.data(), "rows:as_ref", "as_ref differs");
    }
    let total: usize = lens.iter().sum();
    ensure!(rows.size() >= total, "rows:size", "{}: size() {} smaller than the {} row bytes", what, rows.size(), total);
    Ok(())
}

fn check_decoded(s: &Schema, out: &[ArrayRef], want: &[Vec<LValue>], what: &str) -> CaseResult {
    ensure!(out.len() == s.fields.len(), "convert_rows:columns", "{}: {} columns for {} fields", what, out.len(), s.fields.len());
    for k in 0..s.fields.len() {
        let exp_ty = row_out_type(&s.fields[k].ty).arrow();
        ensure!(out[k].data_type() == &exp_ty, "convert_rows:type", "{}: column {} came back as {} expected {}", what, k, out[k].data_type(), exp_ty);
        check_valid(out[k].as_ref(), "convert_rows")?;
        let got = no_panic("extract", || extract(out[k].as_ref()))?;
        ensure!(got.len() == want.len(), "convert_rows:count", "{}: column {} has {} rows, {} selected", what, k, got.len(), want.len());
        for (i, w) in want.iter().enumerate() {
            ensure!(got[i] == w[k], format!("convert_rows:value:{}", s.fields[k].ty.family()), "{}: column {} ({}) row {} is {:?}, encoded {:?}", what, k, s.fields[k].ty.arrow(), i, got[i], w[k]);
        }
    }
    Ok(())
}

fn check_pairs(c: &mut Case, s: &Schema, tuples: &[Vec<LValue>], entries: &[Entry<'_>], strong_order: bool) -> CaseResult {
    let m = entries.len();
    let mut long_prefix = false;
    for i in 0..m {
        for j in 0..m {
            let (a, b) = (&entries[i], &entries[j]);
            let (ta, tb) = (&tuples[a.tuple], &tuples[b.tuple]);
            let got = a.row.cmp(&b.row);
            let same = ta == tb;
            ensure!((got == Ordering::Equal) == same, "row:equal-iff-same-values", "rows {}[{}] and {}[{}] compare {:?} but their values are {}: {:?} / {:?} ({})", a.src, i, b.src, j, got, if same { "equal" } else { "different" }, ta, tb, s.describe());
            ensure!((a.row == b.row) == same, "row:eq", "PartialEq disagrees with values: {:?} / {:?}", ta, tb);
            if same {
                ensure!(hash_of(&a.row) == hash_of(&b.row), "row:hash", "equal rows hash differently");
                ensure!(a.row.data() == b.row.data(), "row:bytes", "equal values, different bytes");
            }
            ensure!(a.row.partial_cmp(&b.row) == Some(got), "row:partial_cmp", "partial_cmp differs from cmp");
            if strong_order {
                let want = s.cmp(ta, tb, UM);
                ensure!(got == want, "row:order", "rows {}[{}] vs {}[{}] compare {:?}, the values compare {:?} under {}: {:?} / {:?}", a.src, i, b.src, j, got, want, s.describe(), ta, tb);
            }
            if !same && i < j {
                let p = a.row.data().iter().zip(b.row.data()).take_while(|(x, y)| x == y).count();
                long_prefix |= p >= 10;
            }
        }
    }
    c.evals((m * m) as u64);
    if long_prefix {
        c.class("pair:common-prefix>=10");
    }
    Ok(())
}

// ------------------------------------------------------------------------------------------------
/// histories on one converter
fn sub_rows(c: &mut Case) -> CaseResult {
    let s = gen_schema(c, 4);
    let k = s.fields.len();
    let mut vc = vcfg();
    if c.tape.chance(64) {
        vc.max_str = 130;
    }
    let nb = 1 + c.tape.below(3);
    let sizes: Vec<usize> = (0..nb).map(|_| if c.tape.chance(24) { 0 } else { 1 + c.tape.below(9) }).collect();
    let total: usize = sizes.iter().sum();
    let cols: Vec<Vec<LValue>> = s.fields.iter().map(|f| gen_ord_column(&mut c.tape, &f.ty, true, total, &vc)).collect();
    c.describe(json!({"fields": s.describe(), "batches": sizes, "columns": cols.iter().map(|x| short_vec(x)).collect::<Vec<_>>()}));
    for f in &s.fields {
        c.class(format!("family:{}", f.ty.family()));
        if f.ty.any(&|t| matches!(t, LType::Dict { .. })) {
            c.class("has:dictionary");
        }
        if f.ty.any(&|t| matches!(t, LType::Ree { .. })) {
            c.class("has:runend");
        }
    }
    c.class(format!("fields:{}", k));
    run_history(c, &s, &cols, &sizes)
}

/// realise the batches, run a generated history on one converter, then judge every pair of rows and every decode
fn run_history(c: &mut Case, s: &Schema, cols: &[Vec<LValue>], sizes: &[usize]) -> CaseResult {
    let k = s.fields.len();
    let mut batches: Vec<Batch> = vec![];
    let mut start = 0;
    for n in sizes {
        let bc: Vec<Vec<LValue>> = cols.iter().map(|x| x[start..start + n].to_vec()).collect();
        let mut arrays = vec![];
        for x in 0..k {
            let lay = lay_of(&mut c.tape);
            arrays.push(no_panic("realise", || realise(&mut c.tape, &s.fields[x].ty, &bc[x], true, &lay))?);
        }
        batches.push(Batch { cols: bc, arrays, n: *n });
        start += n;
    }
    let conv = new_converter(s)?;
    let strong = true;

    // ---- history: a list of Rows objects, each with the tuple index of every row
    let mut tuples: Vec<Vec<LValue>> = vec![];
    let mut batch_tuples: Vec<Vec<usize>> = vec![];
    for b in &batches {
        let ids: Vec<usize> = (0..b.n).map(|i| {
            tuples.push(b.tuple(i));
            tuples.len() - 1
        }).collect();
        batch_tuples.push(ids);
    }
    let mut objs: Vec<(Rows, Vec<usize>, &'static str)> = vec![];
    let mut trace: Vec<String> = vec![];
    // object ids whose row buffer extends behind the last row offset (made by from_binary of a sliced array, or of the
    // binary form of such rows)
    let mut tail: Vec<usize> = vec![];
    for (bi, b) in batches.iter().enumerate() {
        match c.tape.below(4) {
            0 if !objs.is_empty() => {
                // append to an existing Rows
                let t = c.tape.below(objs.len());
                let (rows, map, _) = &mut objs[t];
                match no_panic("append", || conv.append(rows, &b.arrays))? {
                    Ok(()) => {}
                    Err(e) => fail!("append:err", "{}", e),
                }
                map.extend(batch_tuples[bi].iter().copied());
                trace.push(format!("append(obj{}, batch{})", t, bi));
                c.class("op:append");
            }
            1 => {
                let mut rows = no_panic("empty_rows", || conv.empty_rows(c.tape.below(4), c.tape.below(64)))?;
                match no_panic("append", || conv.append(&mut rows, &b.arrays))? {
                    Ok(()) => {}
                    Err(e) => fail!("append:err", "{}", e),
                }
                trace.push(format!("obj{} = empty_rows + append(batch{})", objs.len(), bi));
                objs.push((rows, batch_tuples[bi].clone(), "empty_rows+append"));
                c.class("op:empty_rows+append");
            }
            _ => {
                let rows = match no_panic("convert_columns", || conv.convert_columns(&b.arrays))? {
                    Ok(r) => r,
                    Err(e) => fail!("convert_columns:err", "convert_columns failed for {}: {}", s.describe(), e),
                };
                trace.push(format!("obj{} = convert_columns(batch{})", objs.len(), bi));
                objs.push((rows, batch_tuples[bi].clone(), "convert_columns"));
                c.class("op:convert_columns");
            }
        }
    }
    // derived objects: push of a selection, binary round trip (whole / sliced), clear + reuse
    let extra = c.tape.below(4);
    for _ in 0..extra {
        if objs.is_empty() {
            break;
        }
        let src = c.tape.below(objs.len());
        let (srows, smap) = (objs[src].0.clone(), objs[src].1.clone());
        match c.tape.below(4) {
            0 => {
                let mut rows = conv.empty_rows(0, 0);
                let mut map = vec![];
                let cnt = c.tape.below(6);
                for _ in 0..cnt {
                    if srows.num_rows() == 0 {
                        break;
                    }
                    let i = c.tape.below(srows.num_rows());
                    no_panic("Rows::push", || rows.push(srows.row(i)))?;
                    map.push(smap[i]);
                }
                trace.push(format!("obj{} = empty_rows + push of {} rows of obj{}", objs.len(), map.len(), src));
                objs.push((rows, map, "push"));
                c.class("op:push");
            }
            1 | 2 => {
                let before: Vec<Vec<u8>> = srows.iter().map(|r| r.data().to_vec()).collect();
                let bin = match no_panic("try_into_binary", || srows.try_into_binary())? {
                    Ok(b) => b,
                    Err(e) => fail!("try_into_binary:err", "{}", e),
                };
                check_valid(&bin, "try_into_binary")?;
                ensure!(bin.len() == before.len() && bin.null_count() == 0, "try_into_binary:len", "binary array has {} rows ({} nulls) for {} rows", bin.len(), bin.null_count(), before.len());
                for (i, b) in before.iter().enumerate() {
                    ensure!(bin.value(i) == b.as_slice(), "try_into_binary:bytes", "row {} bytes differ in the binary array", i);
                }
                let mut sliced = tail.contains(&src);
                let (bin, map): (BinaryArray, Vec<usize>) = if c.tape.bool() && bin.len() > 0 {
                    sliced = true;
                    let off = c.tape.below(bin.len());
                    let len = c.tape.below(bin.len() - off + 1);
                    c.class("op:from_binary-sliced");
                    let part = bin.slice(off, len);
                    // the unsliced array must not stay behind as a second owner of the values buffer
                    drop(bin);
                    (part, smap[off..off + len].to_vec())
                } else {
                    c.class("op:from_binary");
                    (bin, smap.clone())
                };
                // from_binary takes the values buffer over without copying when the array is its only owner and copies
                // it otherwise: both paths are exercised (the expected bytes are copied out first, so that nothing but
                // `shared` decides the ownership)
                let expected: Vec<Vec<u8>> = (0..bin.len()).map(|i| bin.value(i).to_vec()).collect();
                let shared = if c.tape.chance(96) { Some(bin.clone()) } else { None };
                c.class(if shared.is_some() { "from_binary:shared-buffer" } else if sliced { "from_binary:sole-owner-sliced" } else { "from_binary:sole-owner" });
                let mut rows = no_panic("from_binary", || conv.from_binary(bin))?;
                let mut map = map;
                ensure!(rows.num_rows() == expected.len(), "from_binary:len", "from_binary has {} rows for {}", rows.num_rows(), expected.len());
                for (i, e) in expected.iter().enumerate() {
                    ensure!(rows.row(i).data() == e.as_slice(), "from_binary:bytes", "row {} differs after binary round trip", i);
                }
                drop(shared);
                if c.tape.chance(64) {
                    if sliced && !c.strict {
                        // known finding: `append` assumes the row buffer ends at the last offset (it zero-fills by
                        // resizing); rows made by from_binary of a sliced array carry the bytes behind the slice,
                        // which then show through the zero padding of null encodings
                        c.exclude("row:append-after-sliced-from_binary");
                    } else {
                        // keep appending to rows that came back from their binary form
                        let bi = c.tape.below(batches.len());
                        match no_panic("append", || conv.append(&mut rows, &batches[bi].arrays))? {
                            Ok(()) => {}
                            Err(e) => fail!("append:err", "{}", e),
                        }
                        map.extend(batch_tuples[bi].iter().copied());
                        trace.push(format!("append(next obj, batch{})", bi));
                        c.class("op:from_binary+append");
                    }
                }
                if sliced {
                    tail.push(objs.len());
                }
                trace.push(format!("obj{} = from_binary(try_into_binary(obj{}){})", objs.len(), src, if sliced { " sliced" } else { "" }));
                objs.push((rows, map, "from_binary"));
            }
            _ => {
                // clear and reuse the allocation
                let mut rows = srows;
                no_panic("Rows::clear", || rows.clear())?;
                ensure!(rows.num_rows() == 0, "rows:clear", "clear left {} rows", rows.num_rows());
                let bi = c.tape.below(batches.len());
                match no_panic("append", || conv.append(&mut rows, &batches[bi].arrays))? {
                    Ok(()) => {}
                    Err(e) => fail!("append:err", "{}", e),
                }
                trace.push(format!("obj{} = clone of obj{}; clear; append(batch{})", objs.len(), src, bi));
                objs.push((rows, batch_tuples[bi].clone(), "clear+append"));
                c.class("op:clear+append");
            }
        }
    }
    if let serde_json::Value::Object(m) = &mut c.desc {
        m.insert("history".into(), json!(trace));
    }
    for (rows, map, src) in &objs {
        ensure!(rows.num_rows() == map.len(), "rows:num_rows", "{} has {} rows, expected {}", src, rows.num_rows(), map.len());
        check_rows_api(rows, src)?;
    }
    // parser and owned rows
    let parser = conv.parser();
    let mut stored: Vec<(Vec<u8>, usize)> = vec![];
    let mut owned: Vec<(OwnedRow, usize)> = vec![];
    for (rows, map, _) in &objs {
        for i in 0..rows.num_rows() {
            if c.tape.chance(48) {
                stored.push((rows.row(i).data().to_vec(), map[i]));
                c.class("op:parse");
            }
            if c.tape.chance(32) {
                owned.push((rows.row(i).owned(), map[i]));
                c.class("op:owned");
            }
        }
    }
    let mut entries: Vec<Entry<'_>> = vec![];
    for (rows, map, src) in &objs {
        for i in 0..rows.num_rows() {
            entries.push(Entry { row: rows.row(i), tuple: map[i], src });
        }
    }
    for (b, t) in &stored {
        entries.push(Entry { row: parser.parse(b), tuple: *t, src: "parser" });
    }
    for (o, t) in &owned {
        entries.push(Entry { row: o.row(), tuple: *t, src: "owned" });
    }
    if entries.len() > 60 {
        // keep the pair matrix bounded: a generated subset
        let mut kept = vec![];
        for e in entries {
            if kept.len() < 60 && c.tape.chance(200) {
                kept.push(e);
            }
        }
        entries = kept;
    }
    check_pairs(c, s, &tuples, &entries, strong)?;
    for (a, ta) in &owned {
        for (b, tb) in &owned {
            ensure!(a.cmp(b) == a.row().cmp(&b.row()) && a.partial_cmp(b) == Some(a.cmp(b)), "ownedrow:cmp", "OwnedRow Ord differs from Row Ord");
            ensure!((a == b) == (tuples[*ta] == tuples[*tb]), "ownedrow:eq", "OwnedRow == is {} for values {:?} / {:?}", a == b, tuples[*ta], tuples[*tb]);
        }
    }

    // three-way with arrow-ord inside each batch (same arrays), where the comparator orders unions like the row format
    // does (no union in the schema)
    if !s.fields.iter().any(|f| has_union(&f.ty)) {
        for (bi, b) in batches.iter().enumerate() {
            if b.n == 0 {
                continue;
            }
            let sc: Vec<SortColumn> = b.arrays.iter().zip(&s.opts).map(|(a, o)| SortColumn { values: a.clone(), options: Some(*o) }).collect();
            let lex = match LexicographicalComparator::try_new(&sc) {
                Ok(l) => l,
                Err(e) => fail!("LexicographicalComparator:err", "{}", e),
            };
            let rows = match conv.convert_columns(&b.arrays) {
                Ok(r) => r,
                Err(e) => fail!("convert_columns:err", "{}", e),
            };
            for i in 0..b.n {
                for j in 0..b.n {
                    let l = no_panic("LexicographicalComparator", || lex.compare(i, j))?;
                    let r = rows.row(i).cmp(&rows.row(j));
                    let m = s.cmp(&tuples[batch_tuples[bi][i]], &tuples[batch_tuples[bi][j]], UM);
                    ensure!(l == m, "comparator:model-split", "LexicographicalComparator {:?} vs model {:?} on rows {}/{} of {}", l, m, i, j, s.describe());
                    ensure!(r == l, "row:order-vs-lexsort", "row order {:?} vs LexicographicalComparator {:?} on rows {}/{} of {}", r, l, i, j, s.describe());
                }
            }
        }
        // across batches, column-wise comparator
        if batches.len() >= 2 && batches[0].n > 0 && batches[1].n > 0 {
            for x in 0..k {
                let f = match make_comparator(batches[0].arrays[x].as_ref(), batches[1].arrays[x].as_ref(), s.opts[x]) {
                    Ok(f) => f,
                    Err(e) => fail!("make_comparator:err", "{}", e),
                };
                for i in 0..batches[0].n {
                    for j in 0..batches[1].n {
                        let m = model_cmp(&s.fields[x].ty, &batches[0].cols[x][i], &batches[1].cols[x][j], s.opts[x], UM);
                        ensure!(no_panic("comparator", || f(i, j))? == m, "comparator:model-split", "cross-batch comparator vs model on column {}", x);
                    }
                }
            }
        }
    }

    // ---- decoding: every Rows object entirely, and a mixed selection with repeats in any order
    for (rows, map, src) in &objs {
        let out = match no_panic("convert_rows", || conv.convert_rows(rows))? {
            Ok(o) => o,
            Err(e) => fail!("convert_rows:err", "convert_rows({}) failed for {}: {}", src, s.describe(), e),
        };
        let want: Vec<Vec<LValue>> = map.iter().map(|t| tuples[*t].clone()).collect();
        check_decoded(s, &out, &want, src)?;
    }
    if !entries.is_empty() {
        let cnt = c.tape.below(2 * entries.len() + 1);
        let sel: Vec<usize> = (0..cnt).map(|_| c.tape.below(entries.len())).collect();
        let out = match no_panic("convert_rows", || conv.convert_rows(sel.iter().map(|i| entries[*i].row)))? {
            Ok(o) => o,
            Err(e) => fail!("convert_rows:err", "convert_rows(selection) failed for {}: {}", s.describe(), e),
        };
        let want: Vec<Vec<LValue>> = sel.iter().map(|i| tuples[entries[*i].tuple].clone()).collect();
        check_decoded(s, &out, &want, "selection")?;
        c.class("decode:selection");
    }
    // non-trivial: a non-default option with nulls and duplicates present, or a long common prefix between different rows
    let nondefault = s.opts.iter().any(|o| o.descending || !o.nulls_first);
    let any_null = cols.iter().any(|x| x.iter().any(|v| v.is_null()));
    let any_dup = (0..tuples.len()).any(|i| (0..i).any(|j| tuples[i] == tuples[j]));
    if (nondefault && any_null && tuples.len() >= 3) || (any_dup && objs.len() >= 2) || c.classes.iter().any(|x| x == "pair:common-prefix>=10") {
        c.nontrivial();
    }
    Ok(())
}

// ------------------------------------------------------------------------------------------------
/// variable-length values of every length around the block edges, in every position and under every option
const BLOCK_LENS: [usize; 64] = [
    0, 1, 2, 3, 4, 5, 6, 7, 8, 9, 10, 11, 12, 13, 14, 15, 16, 17, 18, 19, 20, 21, 22, 23, 24, 25, 26, 27, 28, 29, 30, 31, 32, 33, 34, 35, 36, 37, 38, 39, 40, 47, 48, 49, 55, 56, 57, 63, 64, 65,
    66, 71, 72, 73, 95, 96, 97, 98, 127, 128, 129, 130, 160, 161,
];
const POSITIONS: usize = 6;

fn family(t: &mut Tape, l: usize, string: bool) -> Vec<LValue> {
    let mk = |b: Vec<u8>| -> LValue { if string { LValue::Str(String::from_utf8(b).expect("ascii")) } else { LValue::Bytes(b) } };
    let alphabet: &[u8] = if string { &[0x00, 0x7f, 0x01, 0x61, 0x62, 0x7e] } else { &[0x00, 0xff, 0x01, 0x61, 0xfe, 0x80] };
    let hi = alphabet[1];
    let base: Vec<u8> = match t.below(4) {
        0 => vec![hi; l],
        1 => vec![0x00; l],
        _ => (0..l).map(|_| *t.pick(alphabet)).collect(),
    };
    let mut out = vec![mk(base.clone()), LValue::Null, mk(vec![])];
    if l > 0 {
        out.push(mk(base[..l - 1].to_vec()));
        let mut x = base.clone();
        x[l - 1] = if x[l - 1] == hi { 0x61 } else { hi };
        out.push(mk(x));
        let mut x = base.clone();
        x[l - 1] = if x[l - 1] == 0 { 0x01 } else { 0x00 };
        out.push(mk(x));
        let mut x = base.clone();
        let p = t.below(l);
        x[p] = if x[p] == 0x61 { 0x62 } else { 0x61 };
        out.push(mk(x));
    }
    for e in [0x00u8, hi, 0x61] {
        let mut x = base.clone();
        x.push(e);
        out.push(mk(x));
    }
    let mut x = base.clone();
    x.extend_from_slice(&base);
    out.push(mk(x));
    out.push(mk(vec![hi; l]));
    out.push(mk(vec![0x00; l + 1]));
    out.push(mk(base));
    out
}

fn sub_blocks(c: &mut Case) -> CaseResult {
    let _ = c.tape.u64();
    let mut ix = c.index as usize;
    let l = BLOCK_LENS[ix % BLOCK_LENS.len()];
    ix /= BLOCK_LENS.len();
    let leaf = match ix % 6 {
        0 => LType::Utf8(Enc::O32),
        1 => LType::Binary(Enc::O32),
        2 => LType::Utf8(Enc::View),
        3 => LType::Binary(Enc::View),
        4 => LType::Utf8(Enc::O64),
        _ => LType::Binary(Enc::O64),
    };
    ix /= 6;
    let pos = ix % POSITIONS;
    ix /= POSITIONS;
    let o = ALL_OPTS[ix % 4];
    let string = matches!(leaf, LType::Utf8(_));
    let fam = family(&mut c.tape, l, string);
    let item = |ty: LType| Box::new(LField::new("item", ty, true));
    // the family placed at: top level / dictionary / run-end / list element (after a shared first element) / struct
    // field after an equal first field / list of lists
    let (ty, col): (LType, Vec<LValue>) = match pos {
        0 => (leaf.clone(), fam.clone()),
        1 => (LType::Dict { kbits: 16, ksigned: false, value: Box::new(leaf.clone()) }, fam.clone()),
        2 => (LType::Ree { rbits: 32, value: Box::new(LField::new("values", leaf.clone(), true)) }, fam.clone()),
        3 => {
            let first = fam[0].clone();
            let mut v: Vec<LValue> = fam.iter().map(|x| LValue::List(vec![first.clone(), x.clone()])).collect();
            v.push(LValue::List(vec![first.clone()]));
            v.push(LValue::List(vec![]));
            v.push(LValue::Null);
            v.push(LValue::List(vec![first.clone(), fam[0].clone(), fam[0].clone()]));
            (LType::List(item(leaf.clone()), *c.tape.pick(&[ListEnc::O32, ListEnc::V32, ListEnc::O64, ListEnc::V64])), v)
        }
        4 => {
            let mut v: Vec<LValue> = fam.iter().map(|x| LValue::Struct(vec![fam[0].clone(), x.clone()])).collect();
            v.push(LValue::Null);
            (LType::Struct(vec![LField::new("a", leaf.clone(), true), LField::new("b", leaf.clone(), true)]), v)
        }
        _ => {
            let inner = LType::List(item(leaf.clone()), ListEnc::O32);
            let mut v: Vec<LValue> = fam.iter().map(|x| LValue::List(vec![LValue::List(vec![x.clone()]), LValue::List(vec![])])).collect();
            v.push(LValue::List(vec![LValue::List(vec![])]));
            v.push(LValue::List(vec![LValue::Null]));
            v.push(LValue::List(vec![]));
            v.push(LValue::Null);
            (LType::List(item(inner), ListEnc::O32), v)
        }
    };
    let s = Schema { fields: vec![LField::new("c0", ty.clone(), true)], opts: vec![o] };
    c.describe(json!({"len": l, "type": format!("{}", ty.arrow()), "opts": opts_name(o), "values": short_vec(&col)}));
    c.class(format!("position:{}", pos));
    c.class(format!("opts:{}", opts_name(o)));
    if l >= 9 {
        c.nontrivial();
    }
    let n = col.len();
    let p = c.tape.perm(n);
    let col: Vec<LValue> = p.iter().map(|i| col[*i].clone()).collect();
    let lay = lay_of(&mut c.tape);
    let arr = no_panic("realise", || realise(&mut c.tape, &ty, &col, true, &lay))?;
    let conv = new_converter(&s)?;
    let rows = match no_panic("convert_columns", || conv.convert_columns(&[arr.clone()]))? {
        Ok(r) => r,
        Err(e) => fail!("convert_columns:err", "{}", e),
    };
    check_rows_api(&rows, "blocks")?;
    let tuples: Vec<Vec<LValue>> = col.iter().map(|v| vec![v.clone()]).collect();
    let entries: Vec<Entry<'_>> = (0..n).map(|i| Entry { row: rows.row(i), tuple: i, src: "convert_columns" }).collect();
    check_pairs(c, &s, &tuples, &entries, true)?;
    // the comparator agrees (three-way)
    let f = match make_comparator(arr.as_ref(), arr.as_ref(), o) {
        Ok(f) => f,
        Err(e) => fail!("make_comparator:err", "{}", e),
    };
    for i in 0..n {
        for j in 0..n {
            ensure!(f(i, j) == rows.row(i).cmp(&rows.row(j)), "row:order-vs-comparator", "comparator {:?} row order {:?}: {:?} / {:?}", f(i, j), rows.row(i).cmp(&rows.row(j)), col[i], col[j]);
        }
    }
    let out = match no_panic("convert_rows", || conv.convert_rows(&rows))? {
        Ok(o) => o,
        Err(e) => fail!("convert_rows:err", "{}", e),
    };
    check_decoded(&s, &out, &tuples, "blocks")?;
    // through the binary form and the validating parser path
    let bin = match rows.clone().try_into_binary() {
        Ok(b) => b,
        Err(e) => fail!("try_into_binary:err", "{}", e),
    };
    let back = no_panic("from_binary", || conv.from_binary(bin.clone()))?;
    let out = match no_panic("convert_rows", || conv.convert_rows(&back))? {
        Ok(o) => o,
        Err(e) => fail!("convert_rows:err", "{}", e),
    };
    check_decoded(&s, &out, &tuples, "blocks/from_binary")?;
    Ok(())
}

// ------------------------------------------------------------------------------------------------
/// types outside the documented grid are rejected cleanly; inside they are accepted
fn sub_support(c: &mut Case) -> CaseResult {
    let mut cfg = TypeCfg::all();
    cfg.depth = 3;
    let ty = gen_type(&mut c.tape, &cfg);
    // a dictionary of a nested value type is the documented unsupported shape: build some explicitly
    let ty = if c.tape.chance(96) {
        let inner = gen_type_where(&mut c.tape, &cfg, &|t| t.is_nested() && !matches!(t, LType::Dict { .. } | LType::Ree { .. }));
        let d = LType::Dict { kbits: 32, ksigned: true, value: Box::new(inner) };
        match c.tape.below(3) {
            0 => d,
            1 => LType::List(Box::new(LField::new("item", d, true)), ListEnc::O32),
            _ => LType::Struct(vec![LField::new("a", LType::Bool, true), LField::new("b", d, true)]),
        }
    } else {
        ty
    };
    let want = row_supported(&ty);
    c.describe(json!({"type": format!("{}", ty.arrow()), "supported": want}));
    c.class(if want { "supported" } else { "unsupported" });
    let sf = vec![SortField::new_with_options(ty.arrow(), sort_opts_of(&mut c.tape))];
    let got = no_panic("supports_fields", || RowConverter::supports_fields(&sf))?;
    ensure!(got == want, if want { "supports_fields:false" } else { "supports_fields:unsupported-true" }, "supports_fields({}) = {} but the documented grid says {}", ty.arrow(), got, want);
    let r = no_panic("RowConverter::new", || RowConverter::new(sf).is_ok())?;
    ensure!(r == want, if want { "RowConverter::new:err" } else { "RowConverter::new:unsupported-ok" }, "RowConverter::new({}) ok={} grid {}", ty.arrow(), r, want);
    c.nontrivial();
    c.evals(2);
    Ok(())
}

// ------------------------------------------------------------------------------------------------
// Reproductions of the findings the generators avoid (fixed schema and values, default history; registered with zero
// generated cases so that a known-findings entry {sub, tape: ""} re-executes them)

fn repro_with(c: &mut Case, ty: LType, o: SortOptions, col: Vec<LValue>) -> CaseResult {
    let s = Schema { fields: vec![LField::new("c0", ty, true)], opts: vec![o] };
    c.describe(json!({"fields": s.describe(), "values": short_vec(&col)}));
    c.nontrivial();
    let n = col.len();
    run_history(c, &s, &[col], &[n])
}

/// convert_rows of a dense union whose type ids are not 0..n (ids 0 and 2)
fn repro_union_dense_ids(c: &mut Case) -> CaseResult {
    let ty = LType::Union { dense: true, fields: vec![(0, LField::new("a", LType::Int { bits: 32, signed: true }, true)), (2, LField::new("b", LType::Utf8(Enc::O32), true))] };
    let col = vec![LValue::Union(0, Box::new(LValue::Int(1))), LValue::Union(2, Box::new(LValue::Str("x".into()))), LValue::Union(0, Box::new(LValue::Null))];
    repro_with(c, ty, SortOptions::default(), col)
}

/// convert_rows of a union with a dictionary child: the child comes back hydrated inside a union that still declares
/// the dictionary type
fn repro_union_dictionary_child(c: &mut Case) -> CaseResult {
    let d = LType::Dict { kbits: 32, ksigned: true, value: Box::new(LType::Utf8(Enc::O32)) };
    let ty = LType::Union { dense: false, fields: vec![(0, LField::new("a", d, true))] };
    let col = vec![LValue::Union(0, Box::new(LValue::Str("a".into()))), LValue::Union(0, Box::new(LValue::Str("b".into()))), LValue::Union(0, Box::new(LValue::Str("a".into())))];
    repro_with(c, ty, SortOptions::default(), col)
}

/// a union column under `descending`: values of one type still ascend
fn repro_union_descending(c: &mut Case) -> CaseResult {
    let ty = LType::Union { dense: false, fields: vec![(0, LField::new("a", LType::Int { bits: 32, signed: true }, true))] };
    let col = vec![LValue::Union(0, Box::new(LValue::Int(1))), LValue::Union(0, Box::new(LValue::Int(2))), LValue::Union(0, Box::new(LValue::Int(3)))];
    repro_with(c, ty, SortOptions { descending: true, nulls_first: true }, col)
}

/// append to rows obtained by from_binary of a sliced binary array: the encoding of a null is expected to be
/// sentinel + zeros, but the bytes behind the slice are still in the buffer
fn repro_append_after_sliced_from_binary(c: &mut Case) -> CaseResult {
    use arrow_array::Int32Array;
    use std::sync::Arc;
    let conv = match RowConverter::new(vec![SortField::new(arrow_schema::DataType::Int32)]) {
        Ok(c) => c,
        Err(e) => fail!("RowConverter::new:err", "{}", e),
    };
    let first: ArrayRef = Arc::new(Int32Array::from(vec![Some(1), Some(-1)]));
    let nulls: ArrayRef = Arc::new(Int32Array::from(vec![None::<i32>]));
    let rows = match conv.convert_columns(&[first]) {
        Ok(r) => r,
        Err(e) => fail!("convert_columns:err", "{}", e),
    };
    let reference = match conv.convert_columns(&[nulls.clone()]) {
        Ok(r) => r,
        Err(e) => fail!("convert_columns:err", "{}", e),
    };
    let bin = match rows.try_into_binary() {
        Ok(b) => b,
        Err(e) => fail!("try_into_binary:err", "{}", e),
    };
    let mut back = no_panic("from_binary", || conv.from_binary(bin.slice(0, 1)))?;
    match no_panic("append", || conv.append(&mut back, &[nulls]))? {
        Ok(()) => {}
        Err(e) => fail!("append:err", "{}", e),
    }
    c.describe(json!({"history": "convert [1,-1]; try_into_binary; slice(0,1); from_binary; append [null]; compare with convert [null]"}));
    c.nontrivial();
    ensure!(back.num_rows() == 2, "rows:num_rows", "{} rows", back.num_rows());
    ensure!(back.row(1) == reference.row(0), "row:equal-iff-same-values", "a null appended after from_binary(sliced) encodes as {:?}, a null converted directly as {:?}", back.row(1).data(), reference.row(0).data());
    Ok(())
}

/// a reproduction fails with its own signature (`repro:<key>`), so that listing it as a known finding can never hide a
/// generated failure that merely shares the underlying signature
fn tag(r: CaseResult, key: &str) -> CaseResult {
    r.map_err(|f| Fail::new(format!("repro:{key}"), format!("[{}] {}", f.sig, f.msg)))
}

fn main() {
    let nblocks = (BLOCK_LENS.len() * 6 * POSITIONS * 4) as u64;
    Check::new(
        "C11",
        "exploration",
        "cases = (1-4 sort fields of any row-format type to depth 3 with per-field SortOptions, 1-3 batches of 0-9 rows drawn from a shared pool of values plus near variants, physical layout per array, a history of convert_columns / append / empty_rows+append / push / clear / try_into_binary->from_binary (also sliced) / parser / OwnedRow on one converter, a decode selection with repeats); blocks grid = every byte length in 0..=40 and around 48..161 x 6 variable-length types x 6 positions (top level, dictionary, run-end, list element, struct field, list of lists) x 4 options with a family of neighbours (prefix, one byte longer with 0x00/0xFF, last byte changed, doubled, empty, null). Non-trivial = a non-default option with nulls among >=3 rows, or equal rows reached through two different Rows objects, or two different rows sharing >=10 encoded bytes; blocks: length >= 9. Distinct = distinct consumed tape.",
    )
    .assume("rows are only compared when produced by the same RowConverter (documented); malformed bytes are never parsed")
    .assume("order oracle = the model order of C10 (three-way with LexicographicalComparator/make_comparator on union-free schemas); a union is ordered as the arrow-row documentation says: type id first (negated when descending), then the child encoding, nulls inside the child")
    .assume("decoded columns: dictionaries come back as their value type at every nesting level (documented), run-end arrays as run-end arrays; values compared through accessors")
    .sub(Sub::new("blocks", 0, 0, sub_blocks).enumerate(nblocks, nblocks * 4))
    .sub(
        Sub::new("rows", 150000, 1500000, sub_rows)
            .tape(256, 12000)
            .require(&["family:list", "family:listview", "family:fixedlist", "family:struct", "family:map", "family:union", "family:dictionary", "family:runend", "family:float", "family:view", "family:bytes", "has:dictionary", "fields:1", "fields:4", "op:append", "op:push", "op:from_binary", "op:from_binary-sliced", "from_binary:shared-buffer", "from_binary:sole-owner", "from_binary:sole-owner-sliced", "op:parse", "op:owned", "op:clear+append", "decode:selection", "pair:common-prefix>=10"]),
    )
    .sub(Sub::new("repro_union_dense_ids", 0, 0, |c| tag(repro_union_dense_ids(c), "union-dense-ids")))
    .sub(Sub::new("repro_union_dictionary_child", 0, 0, |c| tag(repro_union_dictionary_child(c), "union-dictionary-child")))
    .sub(Sub::new("repro_union_descending", 0, 0, |c| tag(repro_union_descending(c), "union-descending")))
    .sub(Sub::new("repro_append_after_sliced_from_binary", 0, 0, |c| tag(repro_append_after_sliced_from_binary(c), "append-after-sliced-from-binary")))
    .sub(Sub::new("support", 8000, 80000, sub_support).tape(64, 2000).require(&["supported", "unsupported"]))
    .run()
}
