//! throwaway probe for C04 (deleted before delivery)
use arrow_array::*;
use arrow_ipc::reader::{FileReader, StreamReader};
use arrow_ipc::writer::{FileWriter, IpcWriteOptions, StreamWriter};
use arrow_ipc::MetadataVersion;
use arrow_schema::*;
use futures::{StreamExt, TryStreamExt};
use std::io::Cursor;
use std::sync::Arc;
use vp_engine::batch::*;
use vp_engine::model::*;
use vp_engine::r#gen::*;
use vp_engine::realise::*;
use vp_engine::runner::*;
use vp_engine::tape::Tape;

fn lf(name: &str, ty: LType) -> LField {
    LField::new(name, ty, true)
}
fn i32t() -> LType {
    LType::Int { bits: 32, signed: true }
}

fn kinds() -> Vec<(String, LType)> {
    let mut v: Vec<(String, LType)> = vec![];
    let mut p = |n: &str, t: LType| v.push((n.to_string(), t));
    p("Null", LType::Null);
    p("Bool", LType::Bool);
    for b in [8u8, 16, 32, 64] {
        p(&format!("Int{}", b), LType::Int { bits: b, signed: true });
        p(&format!("UInt{}", b), LType::Int { bits: b, signed: false });
    }
    p("F16", LType::F16);
    p("F32", LType::F32);
    p("F64", LType::F64);
    for w in [32u16, 64, 128, 256] {
        p(&format!("Decimal{}", w), LType::Decimal { width: w, p: 7, s: 2 });
    }
    p("Decimal128neg", LType::Decimal { width: 128, p: 7, s: -2 });
    p("Date32", LType::Date32);
    p("Date64", LType::Date64);
    p("Time32s", LType::Time32(Unit::S));
    p("Time32ms", LType::Time32(Unit::Ms));
    p("Time64us", LType::Time64(Unit::Us));
    p("Time64ns", LType::Time64(Unit::Ns));
    for u in [Unit::S, Unit::Ms, Unit::Us, Unit::Ns] {
        p(&format!("Ts{:?}", u), LType::Timestamp(u.clone(), None));
        p(&format!("Ts{:?}tz", u), LType::Timestamp(u.clone(), Some("+05:30".into())));
        p(&format!("Dur{:?}", u), LType::Duration(u.clone()));
    }
    p("IntervalYM", LType::IntervalYM);
    p("IntervalDT", LType::IntervalDT);
    p("IntervalMDN", LType::IntervalMDN);
    for (n, e) in [("O32", Enc::O32), ("O64", Enc::O64), ("View", Enc::View)] {
        p(&format!("Utf8{}", n), LType::Utf8(e));
        p(&format!("Binary{}", n), LType::Binary(e));
    }
    p("FixedBinary4", LType::FixedBinary(4));
    p("FixedBinary0", LType::FixedBinary(0));
    for (n, e) in [("List", ListEnc::O32), ("LargeList", ListEnc::O64), ("ListView", ListEnc::V32), ("LargeListView", ListEnc::V64)] {
        p(n, LType::List(Box::new(lf("item", i32t())), e));
        p(&format!("{}<Utf8View>", n), LType::List(Box::new(lf("item", LType::Utf8(Enc::View))), e));
    }
    p("FixedList2", LType::FixedList(Box::new(lf("item", i32t())), 2));
    p("FixedList0", LType::FixedList(Box::new(lf("item", i32t())), 0));
    p("Struct", LType::Struct(vec![lf("a", i32t()), lf("b", LType::Utf8(Enc::O32))]));
    p("Map", LType::Map { key: Box::new(LField::new("key", LType::Utf8(Enc::O32), false)), val: Box::new(lf("value", i32t())), sorted: false });
    p("UnionSparse", LType::Union { dense: false, fields: vec![(0, lf("a", i32t())), (3, lf("b", LType::Utf8(Enc::O32)))] });
    p("UnionDense", LType::Union { dense: true, fields: vec![(0, lf("a", i32t())), (3, lf("b", LType::Utf8(Enc::O32)))] });
    for (kb, ks) in [(8u8, true), (8, false), (16, true), (16, false), (32, true), (32, false), (64, true), (64, false)] {
        p(&format!("Dict{}{}", if ks { "i" } else { "u" }, kb), LType::Dict { kbits: kb, ksigned: ks, value: Box::new(LType::Utf8(Enc::O32)) });
    }
    p("Dict<Utf8View>", LType::Dict { kbits: 32, ksigned: true, value: Box::new(LType::Utf8(Enc::View)) });
    p("Dict<Int>", LType::Dict { kbits: 32, ksigned: true, value: Box::new(i32t()) });
    p("Dict<Dec128>", LType::Dict { kbits: 32, ksigned: true, value: Box::new(LType::Decimal { width: 128, p: 7, s: 2 }) });
    p("Dict<FixedBinary>", LType::Dict { kbits: 32, ksigned: true, value: Box::new(LType::FixedBinary(4)) });
    p("Dict<Ts>", LType::Dict { kbits: 32, ksigned: true, value: Box::new(LType::Timestamp(Unit::Ms, Some("UTC".into()))) });
    for rb in [16u8, 32, 64] {
        p(&format!("Ree{}", rb), LType::Ree { rbits: rb, value: Box::new(lf("values", LType::Utf8(Enc::O32))) });
    }
    let d = LType::Dict { kbits: 16, ksigned: true, value: Box::new(LType::Utf8(Enc::O32)) };
    for (n, e) in [("List", ListEnc::O32), ("LargeList", ListEnc::O64), ("ListView", ListEnc::V32), ("LargeListView", ListEnc::V64)] {
        p(&format!("{}<Dict>", n), LType::List(Box::new(lf("item", d.clone())), e));
    }
    p("FixedList<Dict>", LType::FixedList(Box::new(lf("item", d.clone())), 2));
    p("Struct<Dict>", LType::Struct(vec![lf("a", d.clone()), lf("b", i32t())]));
    p("Map<Dict>", LType::Map { key: Box::new(LField::new("key", LType::Utf8(Enc::O32), false)), val: Box::new(lf("value", d.clone())), sorted: false });
    p("UnionSparse<Dict>", LType::Union { dense: false, fields: vec![(0, lf("a", d.clone())), (3, lf("b", i32t()))] });
    p("UnionDense<Dict>", LType::Union { dense: true, fields: vec![(0, lf("a", d.clone())), (3, lf("b", i32t()))] });
    p("Ree<Dict>", LType::Ree { rbits: 32, value: Box::new(lf("values", d.clone())) });
    p("Struct<Union>", LType::Struct(vec![lf("a", LType::Union { dense: false, fields: vec![(0, lf("a", i32t()))] })]));
    p("List<Ree>", LType::List(Box::new(lf("item", LType::Ree { rbits: 32, value: Box::new(lf("values", i32t())) })), ListEnc::O32));
    v
}

fn check_batches(want: &[LBatch], got: &[RecordBatch], schema: &SchemaRef) -> String {
    if got.len() != want.len() {
        return format!("MISMATCH batch count {} vs {}", got.len(), want.len());
    }
    for (i, (w, g)) in want.iter().zip(got).enumerate() {
        if g.schema().fields() != schema.fields() {
            return format!("MISMATCH schema of batch {}: {:?} vs {:?}", i, g.schema(), schema);
        }
        let e = match catch(|| extract_batch(g)) {
            Ok(e) => e,
            Err(p) => return format!("PANIC extract {}", p.msg),
        };
        if let Some((c, r)) = lbatch_diff(&e, w) {
            return format!("MISMATCH values batch {} col {} row {}: {:?} vs {:?}", i, c, r, e.get(c).and_then(|x| x.get(r)), w.get(c).and_then(|x| x.get(r)));
        }
    }
    "ok".into()
}

fn main() {
    install_panic_hook();
    let mut seed = 1u64;
    let mut next_tape = || {
        let mut d = vec![];
        for _ in 0..4000 {
            seed = seed.wrapping_mul(6364136223846793005).wrapping_add(1442695040888963407);
            d.push((seed >> 33) as u8);
        }
        Tape::new(d)
    };
    for (name, ty) in kinds() {
        let nullable = true;
        let fields = vec![LField::new("c0", ty.clone(), nullable)];
        let schema = schema_of(&fields, None);
        let mut t = next_tape();
        let vcfg = ValCfg::default();
        // one column, sliced into two batches so dictionaries are shared
        let all = gen_lbatch(&mut t, &fields, 9, &vcfg);
        let big = match catch(|| realise_batch(&mut t, &schema, &fields, &all, 9, &Lay::fancy())) {
            Ok(b) => b,
            Err(p) => {
                println!("{:24} REALISE PANIC {}", name, p.msg);
                continue;
            }
        };
        let batches = vec![big.slice(0, 4), big.slice(4, 5)];
        let want: Vec<LBatch> = vec![all.iter().map(|c| c[0..4].to_vec()).collect(), all.iter().map(|c| c[4..9].to_vec()).collect()];
        for (vn, ver, legacy) in [("V4", MetadataVersion::V4, false), ("V4L", MetadataVersion::V4, true), ("V5", MetadataVersion::V5, false)] {
            let opts = IpcWriteOptions::try_new(8, legacy, ver).unwrap();
            // file
            let r = catch(|| -> Result<String, ArrowError> {
                let mut w = FileWriter::try_new_with_options(Vec::new(), &schema, opts.clone())?;
                for b in &batches {
                    w.write(b)?;
                }
                w.finish()?;
                let bytes = w.into_inner()?;
                let rd = FileReader::try_new(Cursor::new(bytes), None).map_err(|e| ArrowError::IpcError(format!("READ: {e}")))?;
                let got: Vec<RecordBatch> = rd.collect::<Result<_, _>>().map_err(|e| ArrowError::IpcError(format!("READ: {e}")))?;
                Ok(check_batches(&want, &got, &schema))
            });
            let fr = match r {
                Ok(Ok(s)) => s,
                Ok(Err(e)) => format!("ERR {}", e),
                Err(p) => format!("PANIC {} {}", p.loc, p.msg),
            };
            let r = catch(|| -> Result<String, ArrowError> {
                let mut w = StreamWriter::try_new_with_options(Vec::new(), &schema, opts.clone())?;
                for b in &batches {
                    w.write(b)?;
                }
                w.finish()?;
                let bytes = w.into_inner()?;
                let rd = StreamReader::try_new(Cursor::new(bytes), None).map_err(|e| ArrowError::IpcError(format!("READ: {e}")))?;
                let got: Vec<RecordBatch> = rd.collect::<Result<_, _>>().map_err(|e| ArrowError::IpcError(format!("READ: {e}")))?;
                Ok(check_batches(&want, &got, &schema))
            });
            let sr = match r {
                Ok(Ok(s)) => s,
                Ok(Err(e)) => format!("ERR {}", e),
                Err(p) => format!("PANIC {} {}", p.loc, p.msg),
            };
            if fr != "ok" || sr != "ok" {
                println!("{:24} {:3} file: {} | stream: {}", name, vn, fr, sr);
            }
        }
        // flight
        for (hn, hydrate) in [("hydrate", true), ("resend", false)] {
            let sch = schema.clone();
            let bs = batches.clone();
            let r = catch(move || -> Result<String, String> {
                let enc = arrow_flight::encode::FlightDataEncoderBuilder::new()
                    .with_dictionary_handling(if hydrate { arrow_flight::encode::DictionaryHandling::Hydrate } else { arrow_flight::encode::DictionaryHandling::Resend })
                    .with_schema(sch.clone())
                    .build(futures::stream::iter(bs.into_iter().map(Ok)));
                let known = enc.known_schema();
                let data: Vec<_> = futures::executor::block_on(enc.collect::<Vec<_>>());
                let mut fd = vec![];
                for d in data {
                    fd.push(d.map_err(|e| format!("ENCODE ERR {e}"))?);
                }
                let st = arrow_flight::decode::FlightRecordBatchStream::new_from_flight_data(futures::stream::iter(fd.into_iter().map(Ok)));
                let got: Vec<RecordBatch> = futures::executor::block_on(st.try_collect()).map_err(|e| format!("DECODE ERR {e}"))?;
                Ok(format!("known={:?} got={:?}", known.map(|s| s.fields().clone()), got.first().map(|b| b.schema().fields().clone())))
            });
            let fr = match r {
                Ok(Ok(s)) => s,
                Ok(Err(e)) => e,
                Err(p) => format!("PANIC {} {}", p.loc, p.msg),
            };
            if name.contains("Dict") || name.contains("Union") || !fr.starts_with("known") {
                println!("{:24} flight-{}: {}", name, hn, fr);
            }
        }
    }
    println!("probe done");
}
