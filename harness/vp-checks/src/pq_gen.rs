//! Shared Parquet file / WriterProperties generator for C05 (round trip) and C07 (statistics soundness).
//!
//! * the writer-supported type grid is *data* (`harness/grids/parquet_arrow_writer.json`): a rejection inside the
//!   grid is a violation, types outside must keep being rejected cleanly;
//! * `gen_props` draws every `WriterProperties` knob from its documented legal range (setters that document a
//!   panic on 0 always get >= 1; encodings only from the legal set of the leaf's physical type);
//! * serial write / read helpers wrap every call into `no_panic` and turn `Err` into failures, because inside the
//!   grid both must succeed.
#![allow(dead_code)]
use arrow_array::{ArrayRef, RecordBatch};
use arrow_schema::{Schema, SchemaRef};
use bytes::Bytes;
use parquet::arrow::arrow_reader::{ArrowReaderOptions, ParquetRecordBatchReaderBuilder};
use parquet::arrow::{ArrowSchemaConverter, ArrowWriter};
use parquet::basic::{BrotliLevel, Compression, Encoding, GzipLevel, Type as Phys, ZstdLevel};
use parquet::file::metadata::{PageIndexPolicy, ParquetMetaData};
use parquet::file::properties::{BloomFilterPosition, CdcOptions, EnabledStatistics, WriterProperties, WriterVersion};
use parquet::schema::types::{ColumnPath, SchemaDescriptor};
use serde_json::{json, Value};
use std::collections::{HashMap, HashSet};
use std::sync::{Arc, OnceLock};
use vp_engine::model::*;
use vp_engine::runner::*;
use vp_engine::tape::Tape;

// ------------------------------------------------------------------------------------------------
// support grid (data)

pub const GRID_JSON: &str = include_str!("../../grids/parquet_arrow_writer.json");

pub struct Grid {
    pub leaf: HashSet<String>,
    pub dict_value: HashSet<String>,
    pub ree_value: HashSet<String>,
    pub nesting: HashSet<String>,
    pub rejected: Vec<String>,
    pub encodings: HashMap<String, Vec<String>>,
    /// encodings legal for a `Dictionary(_, FixedSizeBinary)` column (written through the byte-array encoder)
    pub dict_fsb_encodings: Vec<String>,
    pub nested_ree_value: HashSet<String>,
    pub unclaimed: HashSet<String>,
    /// (finding key, dictionary value keys, nested run-end value keys)
    pub defects: Vec<(String, HashSet<String>, HashSet<String>)>,
}

pub fn grid() -> &'static Grid {
    static G: OnceLock<Grid> = OnceLock::new();
    G.get_or_init(|| {
        let v: Value = serde_json::from_str(GRID_JSON).expect("grid json parses");
        let set = |k: &str| -> HashSet<String> { v[k].as_array().expect(k).iter().map(|x| x.as_str().unwrap().to_string()).collect() };
        let list = |x: &Value| -> Vec<String> { x.as_array().unwrap().iter().map(|x| x.as_str().unwrap().to_string()).collect() };
        Grid {
            leaf: set("leaf"),
            dict_value: set("dictionary_value"),
            ree_value: set("run_end_value"),
            nesting: set("nesting"),
            rejected: list(&v["rejected"]),
            encodings: v["encodings"].as_object().unwrap().iter().map(|(k, x)| (k.clone(), list(x))).collect(),
            dict_fsb_encodings: list(&v["dictionary_fixed_size_binary_encodings"]),
            nested_ree_value: set("nested_run_end_value"),
            unclaimed: set("unclaimed"),
            defects: v["known_defects"]
                .as_object()
                .unwrap()
                .iter()
                .map(|(k, d)| {
                    let get = |f: &str| -> HashSet<String> { d[f].as_array().map(|a| a.iter().map(|x| x.as_str().unwrap().to_string()).collect()).unwrap_or_default() };
                    (k.clone(), get("dictionary_value"), get("nested_run_end_value"))
                })
                .collect(),
        }
    })
}

fn unit_s(u: &Unit) -> &'static str {
    match u {
        Unit::S => "s",
        Unit::Ms => "ms",
        Unit::Us => "us",
        Unit::Ns => "ns",
    }
}

/// grid key of the top node of a type
pub fn type_key(ty: &LType) -> String {
    use LType::*;
    match ty {
        Null => "Null".into(),
        Bool => "Boolean".into(),
        Int { bits, signed } => format!("{}Int{}", if *signed { "" } else { "U" }, bits),
        F16 => "Float16".into(),
        F32 => "Float32".into(),
        F64 => "Float64".into(),
        // Parquet DECIMAL needs 0 <= scale (<= precision): no direct mapping for negative scales
        Decimal { s, .. } if *s < 0 => "Decimal(negative scale)".into(),
        Decimal { width, p, .. } => format!("Decimal{}({})", width, if *p <= 9 { "p<=9" } else if *p <= 18 { "p<=18" } else if *p <= 38 { "p<=38" } else { "p>38" }),
        Date32 => "Date32".into(),
        Date64 => "Date64".into(),
        Time32(u) => format!("Time32({})", unit_s(u)),
        Time64(u) => format!("Time64({})", unit_s(u)),
        Timestamp(u, None) => format!("Timestamp({})", unit_s(u)),
        Timestamp(u, Some(_)) => format!("Timestamp({},tz)", unit_s(u)),
        Duration(u) => format!("Duration({})", unit_s(u)),
        IntervalYM => "Interval(YearMonth)".into(),
        IntervalDT => "Interval(DayTime)".into(),
        IntervalMDN => "Interval(MonthDayNano)".into(),
        Utf8(Enc::O32) => "Utf8".into(),
        Utf8(Enc::O64) => "LargeUtf8".into(),
        Utf8(Enc::View) => "Utf8View".into(),
        Binary(Enc::O32) => "Binary".into(),
        Binary(Enc::O64) => "LargeBinary".into(),
        Binary(Enc::View) => "BinaryView".into(),
        FixedBinary(0) => "FixedSizeBinary(0)".into(),
        FixedBinary(_) => "FixedSizeBinary".into(),
        List(_, ListEnc::O32) => "List".into(),
        List(_, ListEnc::O64) => "LargeList".into(),
        List(_, ListEnc::V32) => "ListView".into(),
        List(_, ListEnc::V64) => "LargeListView".into(),
        FixedList(_, 0) => "FixedSizeList(0)".into(),
        FixedList(..) => "FixedSizeList".into(),
        Struct(_) => "Struct".into(),
        Map { .. } => "Map".into(),
        Union { .. } => "Union".into(),
        Dict { .. } => "Dictionary".into(),
        Ree { .. } => "RunEndEncoded".into(),
    }
}

/// is the whole type inside the committed writer grid
pub fn grid_supports(ty: &LType) -> bool {
    use LType::*;
    let g = grid();
    match ty {
        Dict { value, .. } => g.nesting.contains("Dictionary") && g.dict_value.contains(&type_key(value)),
        Ree { value, .. } => g.nesting.contains("RunEndEncoded") && g.ree_value.contains(&type_key(&value.ty)),
        List(f, _) | FixedList(f, _) => g.nesting.contains(&type_key(ty)) && grid_supports(&f.ty),
        Struct(fs) => g.nesting.contains("Struct") && fs.iter().all(|f| grid_supports(&f.ty)),
        Map { key, val, .. } => g.nesting.contains("Map") && grid_supports(&key.ty) && grid_supports(&val.ty),
        Union { .. } => false,
        t => g.leaf.contains(&type_key(t)),
    }
}

/// key of the reported finding a type runs into on the pinned tree (None = expected to round-trip)
pub fn known_defect(ty: &LType) -> Option<&'static str> {
    fn walk(ty: &LType, top: bool) -> Option<&'static str> {
        use LType::*;
        let g = grid();
        match ty {
            // schema conversion maps precision 1 to INT64 (`precision > 1 && precision <= 9` => INT32), and the INT64
            // leaf writer has no Decimal32 arm
            Decimal { width: 32, p: 1, .. } => Some("C05-decimal32-precision1"),
            Dict { value, .. } => {
                let k = type_key(value);
                g.defects.iter().find(|d| d.1.contains(&k)).map(|d| d.0.as_str()).or_else(|| walk(value, false))
            }
            Ree { value, .. } => {
                if !top {
                    let k = type_key(&value.ty);
                    if let Some(d) = g.defects.iter().find(|d| d.2.contains(&k)) {
                        return Some(d.0.as_str());
                    }
                }
                walk(&value.ty, false)
            }
            List(f, _) | FixedList(f, _) => walk(&f.ty, false),
            Struct(fs) => fs.iter().find_map(|f| walk(&f.ty, false)),
            Map { key, val, .. } => walk(&key.ty, false).or_else(|| walk(&val.ty, false)),
            _ => None,
        }
    }
    walk(ty, true)
}

/// Reported finding C05-reader-unmasked-nulls: a non-nullable Struct / FixedSizeList field that has a non-nullable
/// child and sits (slot-aligned, i.e. through structs / fixed-size lists / list items) below a nullable ancestor comes
/// back from the reader without validity while its child carries the ancestor's nulls ("unmasked nulls for a
/// non-nullable field", which the checked constructors and the independent validator reject).
pub fn unmasked_null_shape(f: &LField) -> bool {
    fn walk(f: &LField, chain_nullable: bool) -> bool {
        use LType::*;
        let here = chain_nullable || f.nullable;
        match &f.ty {
            Struct(fs) => (!f.nullable && chain_nullable && fs.iter().any(|c| !c.nullable)) || fs.iter().any(|c| walk(c, here)),
            FixedList(c, n) => (*n > 0 && !f.nullable && chain_nullable && !c.nullable) || walk(c, here),
            List(c, _) => walk(c, false),
            Map { key, val, .. } => walk(key, false) || walk(val, false),
            _ => false,
        }
    }
    walk(f, false)
}

/// shapes outside the property's stated domain that are neither claimed to work nor to be rejected
pub fn unclaimed(ty: &LType) -> bool {
    let g = grid();
    ty.any(&|x| match x {
        LType::FixedBinary(0) => g.unclaimed.contains("FixedSizeBinary(0)"),
        LType::Dict { value, .. } => match **value {
            LType::Bool => g.unclaimed.contains("Dictionary<Boolean>"),
            LType::Null => g.unclaimed.contains("Dictionary<Null>"),
            _ => false,
        },
        _ => false,
    })
}

/// the Arrow type the reader is documented to return: run-end encoded columns come back as their value type
pub fn read_back_type(ty: &LType) -> LType {
    use LType::*;
    let f = |x: &LField| LField { name: x.name.clone(), ty: read_back_type(&x.ty), nullable: x.nullable };
    match ty {
        Ree { value, .. } => read_back_type(&value.ty),
        List(c, e) => List(Box::new(f(c)), *e),
        FixedList(c, n) => FixedList(Box::new(f(c)), *n),
        Struct(fs) => Struct(fs.iter().map(f).collect()),
        Map { key, val, sorted } => Map { key: Box::new(f(key)), val: Box::new(f(val)), sorted: *sorted },
        t => t.clone(),
    }
}

/// leaf (parquet column) types of a field in writer order
pub fn leaves_of(ty: &LType, out: &mut Vec<LType>) {
    use LType::*;
    match ty {
        List(f, _) | FixedList(f, _) => leaves_of(&f.ty, out),
        Struct(fs) => fs.iter().for_each(|f| leaves_of(&f.ty, out)),
        Map { key, val, .. } => {
            leaves_of(&key.ty, out);
            leaves_of(&val.ty, out);
        }
        Ree { value, .. } => leaves_of(&value.ty, out),
        t => out.push(t.clone()),
    }
}

pub fn parquet_schema(schema: &Schema) -> Result<SchemaDescriptor, Fail> {
    no_panic("ArrowSchemaConverter::convert", || ArrowSchemaConverter::new().with_coerce_types(false).convert(schema))?
        .map_err(|e| Fail::new("ArrowSchemaConverter::convert:err", format!("schema inside the grid rejected: {}", e)))
}

// ------------------------------------------------------------------------------------------------
// WriterProperties

pub fn phys_name(p: Phys) -> &'static str {
    match p {
        Phys::BOOLEAN => "BOOLEAN",
        Phys::INT32 => "INT32",
        Phys::INT64 => "INT64",
        Phys::INT96 => "INT96",
        Phys::FLOAT => "FLOAT",
        Phys::DOUBLE => "DOUBLE",
        Phys::BYTE_ARRAY => "BYTE_ARRAY",
        Phys::FIXED_LEN_BYTE_ARRAY => "FIXED_LEN_BYTE_ARRAY",
    }
}

pub fn encoding_of(name: &str) -> Encoding {
    match name {
        "PLAIN" => Encoding::PLAIN,
        "RLE" => Encoding::RLE,
        "DELTA_BINARY_PACKED" => Encoding::DELTA_BINARY_PACKED,
        "DELTA_LENGTH_BYTE_ARRAY" => Encoding::DELTA_LENGTH_BYTE_ARRAY,
        "DELTA_BYTE_ARRAY" => Encoding::DELTA_BYTE_ARRAY,
        "BYTE_STREAM_SPLIT" => Encoding::BYTE_STREAM_SPLIT,
        x => panic!("grid names unknown encoding {}", x),
    }
}

/// legal explicit encodings for a leaf (grid data)
pub fn legal_encodings(phys: Phys, leaf: &LType) -> Vec<Encoding> {
    let g = grid();
    if matches!(leaf, LType::Dict { value, .. } if matches!(**value, LType::FixedBinary(_))) {
        return g.dict_fsb_encodings.iter().map(|s| encoding_of(s)).collect();
    }
    g.encodings.get(phys_name(phys)).map(|v| v.iter().map(|s| encoding_of(s)).collect()).unwrap_or_else(|| vec![Encoding::PLAIN])
}

/// true with probability n/256, but *false* for small tape bytes: optional features are off on an exhausted / shrunk tape
pub fn rare(t: &mut Tape, n: u32) -> bool {
    (t.u8() as u32) + n >= 256
}

pub fn gen_compression(t: &mut Tape) -> Compression {
    match t.below(12) {
        0..=3 => Compression::UNCOMPRESSED,
        4 => Compression::SNAPPY,
        5 => Compression::GZIP(GzipLevel::try_new(*t.pick(&[6u32, 1, 9])).unwrap()),
        6 => Compression::BROTLI(BrotliLevel::try_new(*t.pick(&[1u32, 0, 4])).unwrap()),
        7 => Compression::LZ4,
        8 => Compression::LZ4_RAW,
        9 => Compression::ZSTD(ZstdLevel::try_new(*t.pick(&[1i32, 3, 5])).unwrap()),
        10 => Compression::SNAPPY,
        _ => Compression::ZSTD(ZstdLevel::default()),
    }
}

#[derive(Clone, Debug, Default)]
pub struct PropOpts {
    /// C07 flavour: tiny pages (1..=40 rows), bloom filters and truncation lengths always interesting, cheap codecs
    pub stats_focus: bool,
    /// total number of rows that will be written (bounds the number of row groups / pages)
    pub rows: usize,
    /// never enable content-defined chunking (known finding C05-cdc-listview)
    pub no_cdc: bool,
}

#[derive(Clone, Debug)]
pub struct ColFacts {
    pub path: String,
    pub stats: EnabledStatistics,
    pub bloom: bool,
    pub explicit_encoding: bool,
    pub dict: bool,
}

/// what the oracle needs to know about the generated properties
#[derive(Clone, Debug)]
pub struct PropFacts {
    pub v2: bool,
    pub max_rg_rows: Option<usize>,
    pub max_rg_bytes: Option<usize>,
    pub stats_truncate: Option<usize>,
    pub index_truncate: Option<usize>,
    pub page_header_stats: bool,
    pub offset_index_disabled: bool,
    pub cdc: bool,
    pub dict_limit_small: bool,
    pub cols: Vec<ColFacts>,
    pub non_default: bool,
}

fn stats_name(s: EnabledStatistics) -> &'static str {
    match s {
        EnabledStatistics::None => "none",
        EnabledStatistics::Chunk => "chunk",
        EnabledStatistics::Page => "page",
    }
}

/// Draw writer properties for a file with the given parquet schema; `leaves[i]` is the Arrow leaf type of column i.
pub fn gen_props(t: &mut Tape, descr: &SchemaDescriptor, leaves: &[LType], o: &PropOpts) -> (WriterProperties, PropFacts, Value) {
    let rows = o.rows.max(1);
    let mut b = WriterProperties::builder().set_coerce_types(false);
    let mut d = serde_json::Map::new();

    let v2 = t.bool();
    b = b.set_writer_version(if v2 { WriterVersion::PARQUET_2_0 } else { WriterVersion::PARQUET_1_0 });
    d.insert("version".into(), json!(if v2 { 2 } else { 1 }));

    let dict_default = !rare(t, 80);
    b = b.set_dictionary_enabled(dict_default);
    d.insert("dict".into(), json!(dict_default));

    // small dictionary page limits force the mid-chunk fallback
    let dict_limit = *t.pick(&[1usize << 20, 16, 64, 200, 1000, 1, 40, 4096]);
    b = b.set_dictionary_page_size_limit(dict_limit);
    d.insert("dict_page_limit".into(), json!(dict_limit));

    let page_bytes = if o.stats_focus { *t.pick(&[1usize << 20, 1 << 20, 64, 500]) } else { *t.pick(&[1usize << 20, 32, 100, 500, 4096, 1, 8]) };
    b = b.set_data_page_size_limit(page_bytes);
    d.insert("page_bytes".into(), json!(page_bytes));

    // pages: row-count limit is "best effort based on write_batch_size": small batches make it bite
    let (page_rows, wbs) = if o.stats_focus {
        let pr = 1 + t.below(40);
        let wbs = if rare(t, 200) { 1 + t.below(pr) } else { *t.pick(&[1024usize, 64, 7]) };
        (pr, wbs)
    } else {
        let pr = *t.pick(&[20_000usize, 1, 2, 3, 7, 20, 100, 1000, 33]);
        let wbs = *t.pick(&[1024usize, 1, 2, 7, 64]);
        (pr, wbs)
    };
    // keep the number of pages per chunk bounded for the big-row tail
    let page_rows = if rows > 600 { page_rows.max(rows / 200) } else { page_rows };
    let wbs = if rows > 600 { wbs.max(7) } else { wbs };
    b = b.set_data_page_row_count_limit(page_rows).set_write_batch_size(wbs);
    d.insert("page_rows".into(), json!(page_rows));
    d.insert("write_batch".into(), json!(wbs));

    // row groups: at most ~32 per file
    let lo = rows.div_ceil(32).max(1);
    let max_rg_rows = match t.below(8) {
        0 | 1 | 2 => Some(1usize << 20),
        3 => None,
        4 => Some(lo),
        5 => Some((*t.pick(&[1usize, 2, 10, 100, 1000])).max(lo)),
        6 => Some((1 + t.below(rows.max(2))).max(lo)),
        _ => Some(rows.max(1)),
    };
    b = b.set_max_row_group_row_count(max_rg_rows);
    d.insert("max_rg_rows".into(), json!(max_rg_rows));
    let max_rg_bytes = if rows <= 400 && rare(t, 48) { Some(*t.pick(&[1000usize, 64, 10_000, 1, 300])) } else { None };
    b = b.set_max_row_group_bytes(max_rg_bytes);
    d.insert("max_rg_bytes".into(), json!(max_rg_bytes));

    let codec = if o.stats_focus && !rare(t, 48) { Compression::UNCOMPRESSED } else { gen_compression(t) };
    b = b.set_compression(codec);
    d.insert("compression".into(), json!(format!("{:?}", codec)));

    let stats_default = if o.stats_focus {
        *t.pick(&[EnabledStatistics::Page, EnabledStatistics::Page, EnabledStatistics::Page, EnabledStatistics::Chunk, EnabledStatistics::None])
    } else {
        *t.pick(&[EnabledStatistics::Page, EnabledStatistics::Chunk, EnabledStatistics::None, EnabledStatistics::Page])
    };
    b = b.set_statistics_enabled(stats_default);
    d.insert("stats".into(), json!(stats_name(stats_default)));
    let page_header_stats = rare(t, if o.stats_focus { 128 } else { 64 });
    b = b.set_write_page_header_statistics(page_header_stats);
    d.insert("page_header_stats".into(), json!(page_header_stats));

    let trunc = |t: &mut Tape| -> Option<usize> { *t.pick(&[Some(64usize), None, Some(1), Some(2), Some(3), Some(4), Some(5)]) };
    let stats_truncate = trunc(t);
    let index_truncate = trunc(t);
    b = b.set_statistics_truncate_length(stats_truncate).set_column_index_truncate_length(index_truncate);
    d.insert("stats_truncate".into(), json!(stats_truncate));
    d.insert("index_truncate".into(), json!(index_truncate));

    let bloom_default = rare(t, if o.stats_focus { 160 } else { 64 });
    let gen_bloom = |t: &mut Tape| -> (f64, u64) { (*t.pick(&[0.05f64, 0.5, 0.01, 0.001, 0.9]), *t.pick(&[100u64, 1, 10, 5000, 3, 40_000])) };
    if bloom_default {
        let (fpp, ndv) = gen_bloom(t);
        b = b.set_bloom_filter_enabled(true).set_bloom_filter_fpp(fpp).set_bloom_filter_max_ndv(ndv);
        d.insert("bloom".into(), json!({"fpp": fpp, "ndv": ndv}));
    }
    if rare(t, 64) {
        b = b.set_bloom_filter_position(BloomFilterPosition::End);
        d.insert("bloom_at_end".into(), json!(true));
    }
    let offset_index_disabled = rare(t, 24);
    if offset_index_disabled {
        b = b.set_offset_index_disabled(true);
        d.insert("offset_index_disabled".into(), json!(true));
    }
    if rare(t, 24) {
        b = b.set_write_row_group_number_distinct_values(true);
        d.insert("ndv_stats".into(), json!(true));
    }
    if rare(t, 16) {
        b = b.set_write_path_in_schema(false);
        d.insert("no_path_in_schema".into(), json!(true));
    }
    if v2 && rare(t, 32) {
        let thr = *t.pick(&[0.5f64, 2.0, 0.9]);
        b = b.set_data_page_v2_compression_ratio_threshold(thr);
        d.insert("v2_ratio".into(), json!(thr));
    }
    // content-defined chunking: documented panics (min == 0, max <= min) and the mask-width constraint
    // (floor(log2((max-min)/16)) - norm_level in 1..=63) are respected by construction
    let cdc = rare(t, if o.stats_focus { 24 } else { 48 }) && !o.no_cdc;
    if cdc {
        let min = *t.pick(&[16usize, 1, 64, 256, 1024]);
        let delta = *t.pick(&[64usize, 256, 1024, 4096]);
        let norm = *t.pick(&[0i32, 1, -1, -3]);
        b = b.set_content_defined_chunking(Some(CdcOptions { min_chunk_size: min, max_chunk_size: min + delta, norm_level: norm }));
        d.insert("cdc".into(), json!({"min": min, "max": min + delta, "norm": norm}));
    }

    // per-column overrides
    let mut cols = vec![];
    let mut cd = vec![];
    let mut non_default = v2 || cdc;
    for (i, c) in descr.columns().iter().enumerate() {
        let path: ColumnPath = c.path().clone();
        let leaf = &leaves[i];
        let mut f = ColFacts { path: path.string(), stats: stats_default, bloom: bloom_default, explicit_encoding: false, dict: dict_default };
        let mut m = serde_json::Map::new();
        if rare(t, 110) {
            let legal = legal_encodings(c.physical_type(), leaf);
            let e = *t.pick(&legal);
            b = b.set_column_encoding(path.clone(), e);
            f.explicit_encoding = true;
            if e != Encoding::PLAIN {
                non_default = true;
            }
            m.insert("enc".into(), json!(format!("{:?}", e)));
        }
        if rare(t, 64) {
            f.dict = !dict_default;
            b = b.set_column_dictionary_enabled(path.clone(), f.dict);
            m.insert("dict".into(), json!(f.dict));
        }
        if rare(t, 32) {
            let l = *t.pick(&[16usize, 1, 100, 1 << 20]);
            b = b.set_column_dictionary_page_size_limit(path.clone(), l);
            m.insert("dict_page_limit".into(), json!(l));
        }
        if rare(t, 32) {
            let l = *t.pick(&[64usize, 1, 1000, 1 << 20]);
            b = b.set_column_data_page_size_limit(path.clone(), l);
            m.insert("page_bytes".into(), json!(l));
        }
        if rare(t, 40) {
            let cc = gen_compression(t);
            b = b.set_column_compression(path.clone(), cc);
            m.insert("compression".into(), json!(format!("{:?}", cc)));
        }
        if rare(t, 64) {
            f.stats = *t.pick(&[EnabledStatistics::Page, EnabledStatistics::Chunk, EnabledStatistics::None]);
            b = b.set_column_statistics_enabled(path.clone(), f.stats);
            m.insert("stats".into(), json!(stats_name(f.stats)));
        }
        if rare(t, 32) {
            let v = t.bool();
            b = b.set_column_write_page_header_statistics(path.clone(), v);
            m.insert("page_header_stats".into(), json!(v));
        }
        if rare(t, if o.stats_focus { 96 } else { 40 }) {
            if f.bloom && rare(t, 64) {
                f.bloom = false;
                b = b.set_column_bloom_filter_enabled(path.clone(), false);
                m.insert("bloom".into(), json!(false));
            } else {
                let (fpp, ndv) = gen_bloom(t);
                f.bloom = true;
                b = b.set_column_bloom_filter_fpp(path.clone(), fpp).set_column_bloom_filter_max_ndv(path.clone(), ndv);
                m.insert("bloom".into(), json!({"fpp": fpp, "ndv": ndv}));
            }
        }
        if !m.is_empty() {
            m.insert("col".into(), json!(f.path));
            cd.push(Value::Object(m));
        }
        cols.push(f);
    }
    if !cd.is_empty() {
        d.insert("columns".into(), Value::Array(cd));
    }
    let facts = PropFacts {
        v2,
        max_rg_rows,
        max_rg_bytes,
        stats_truncate,
        index_truncate,
        page_header_stats,
        offset_index_disabled,
        cdc,
        dict_limit_small: dict_limit <= 1000,
        cols,
        non_default,
    };
    (b.build(), facts, Value::Object(d))
}

// ------------------------------------------------------------------------------------------------
// writing and reading

pub fn perr<T>(what: &str, r: Result<T, parquet::errors::ParquetError>) -> Result<T, Fail> {
    r.map_err(|e| Fail::new(format!("{}:err", what), format!("{} failed on supported input: {}", what, e)))
}
pub fn aerr<T>(what: &str, r: Result<T, arrow_schema::ArrowError>) -> Result<T, Fail> {
    r.map_err(|e| Fail::new(format!("{}:err", what), format!("{} failed on supported input: {}", what, e)))
}

/// write the batches through `ArrowWriter`, calling `flush()` after batch i when `flush_after[i]`
pub fn write_serial(schema: &SchemaRef, batches: &[RecordBatch], flush_after: &[bool], props: WriterProperties) -> Result<(Bytes, ParquetMetaData), Fail> {
    let mut buf: Vec<u8> = Vec::new();
    let meta = {
        let mut w = perr("ArrowWriter::try_new", no_panic("ArrowWriter::try_new", || ArrowWriter::try_new(&mut buf, schema.clone(), Some(props)))?)?;
        for (i, b) in batches.iter().enumerate() {
            perr("ArrowWriter::write", no_panic("ArrowWriter::write", || w.write(b))?)?;
            if flush_after.get(i).copied().unwrap_or(false) {
                perr("ArrowWriter::flush", no_panic("ArrowWriter::flush", || w.flush())?)?;
            }
        }
        perr("ArrowWriter::close", no_panic("ArrowWriter::close", || w.close())?)?
    };
    Ok((Bytes::from(buf), meta))
}

pub struct ReadBack {
    pub schema: SchemaRef,
    pub batches: Vec<RecordBatch>,
    pub meta: Arc<ParquetMetaData>,
}

/// read the whole file with the Arrow reader (page index loaded when present)
pub fn read_all(bytes: &Bytes, batch_size: usize) -> Result<ReadBack, Fail> {
    let opts = ArrowReaderOptions::new().with_page_index_policy(PageIndexPolicy::Optional);
    let builder = perr(
        "ParquetRecordBatchReaderBuilder::try_new",
        no_panic("ParquetRecordBatchReaderBuilder::try_new", || ParquetRecordBatchReaderBuilder::try_new_with_options(bytes.clone(), opts))?,
    )?;
    let schema = builder.schema().clone();
    let meta = builder.metadata().clone();
    let reader = perr("ParquetRecordBatchReaderBuilder::build", no_panic("ParquetRecordBatchReaderBuilder::build", || builder.with_batch_size(batch_size).build())?)?;
    let mut batches = vec![];
    let mut reader = reader;
    loop {
        let n = no_panic("ParquetRecordBatchReader::next", || reader.next())?;
        match n {
            None => break,
            Some(r) => batches.push(aerr("ParquetRecordBatchReader::next", r)?),
        }
    }
    Ok(ReadBack { schema, batches, meta })
}

/// slice rows [from, from+len) of a list of batches into one list of column chunks (per column: the arrays covering the range)
pub fn slice_rows(batches: &[RecordBatch], from: usize, len: usize) -> Vec<Vec<ArrayRef>> {
    let ncols = batches.first().map(|b| b.num_columns()).unwrap_or(0);
    let mut out: Vec<Vec<ArrayRef>> = vec![vec![]; ncols];
    let mut pos = 0usize;
    let end = from + len;
    for b in batches {
        let n = b.num_rows();
        let lo = from.max(pos);
        let hi = end.min(pos + n);
        if lo < hi {
            for (c, col) in b.columns().iter().enumerate() {
                out[c].push(col.slice(lo - pos, hi - lo));
            }
        }
        pos += n;
    }
    out
}
