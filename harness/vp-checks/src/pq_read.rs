//! Shared machinery of C06 / C15: small Parquet files for read tests, read configurations (projection, row
//! groups, row selection, predicates, offset, limit, batch size, selection policy, page index policy), the
//! in-memory reference evaluator, the three front-ends (sync reader, async stream, push decoder) and the
//! adversarial I/O layer (AsyncFileReader with generated Pending patterns, manual executor, push driver).
#![allow(dead_code)]
use arrow_array::{BooleanArray, RecordBatch};
use arrow_buffer::BooleanBuffer;
use arrow_schema::{DataType, Field, Fields, Schema, SchemaRef};
use bytes::Bytes;
use futures::future::BoxFuture;
use futures::{FutureExt, Stream};
use parquet::arrow::arrow_reader::{
    ArrowPredicate, ArrowPredicateFn, ArrowReaderBuilder, ArrowReaderMetadata, ArrowReaderOptions, ParquetRecordBatchReader,
    ParquetRecordBatchReaderBuilder, RowFilter, RowSelection, RowSelectionPolicy, RowSelector,
};
use parquet::arrow::async_reader::{AsyncFileReader, ParquetRecordBatchStreamBuilder};
use parquet::arrow::push_decoder::{ParquetPushDecoder, ParquetPushDecoderBuilder, PushBuffers};
use parquet::arrow::{ArrowWriter, ProjectionMask};
use parquet::basic::Compression;
use parquet::file::metadata::{PageIndexPolicy, ParquetMetaData, ParquetMetaDataReader};
use parquet::file::properties::{EnabledStatistics, WriterProperties, WriterVersion};
use parquet::schema::types::SchemaDescriptor;
use parquet::DecodeResult;
use serde_json::{json, Value};
use std::future::Future;
use std::ops::Range;
use std::pin::Pin;
use std::sync::atomic::{AtomicUsize, Ordering};
use std::sync::{Arc, Mutex};
use std::task::{Context, Poll};
use vp_engine::batch::*;
use vp_engine::model::*;
use vp_engine::r#gen::*;
use vp_engine::realise::Lay;
use vp_engine::runner::*;
use vp_engine::tape::Tape;
use vp_engine::{ensure, fail};

#[path = "pq_gen.rs"]
mod pq_gen;

// =================================================================================================
// file generator
// =================================================================================================

/// column types used in read tests: ints, floats, bool, strings, dictionary-encoded columns, and
/// list / struct / list-of-struct / struct-of-list nestings with generated nullability at every level
pub fn type_cfg() -> TypeCfg {
    TypeCfg {
        depth: 2,
        nested: true,
        dict: true,
        ree: false,
        union: false,
        map: false,
        listview: false,
        fixedlist: false,
        view: false,
        large: false,
        null: false,
        boolean: true,
        decimal: false,
        dec_small: false,
        dec256: false,
        interval: false,
        temporal: false,
        tz: false,
        float: true,
        f16: false,
        unsigned: false,
        strings: true,
        binary: false,
        fixedbinary: false,
        nested_encoded: false,
        neg_scale: false,
    }
}

/// wide mode (a share of the files): every leaf type of the committed writer grid (decimals of all widths, Float16,
/// FixedSizeBinary, temporal types, intervals, unsigned, binary, large / view encodings) so that every physical type and
/// every value decoder meets the selection / skip paths
pub fn wide_type_cfg() -> TypeCfg {
    TypeCfg {
        decimal: true,
        dec_small: true,
        dec256: true,
        interval: true,
        temporal: true,
        tz: true,
        f16: true,
        unsigned: true,
        binary: true,
        fixedbinary: true,
        large: true,
        view: true,
        ..type_cfg()
    }
}

/// deterministic byte stream expanded from a seed drawn from the tape (seed 0 => zeros => simplest data)
pub fn expand_tape(seed: u64, n: usize) -> Tape {
    if seed == 0 {
        return Tape::new(vec![0u8; 0]);
    }
    let mut out = Vec::with_capacity(n + 8);
    let mut x = seed;
    while out.len() < n {
        x = x.wrapping_add(0x9E3779B97F4A7C15);
        let mut z = x;
        z = (z ^ (z >> 30)).wrapping_mul(0xBF58476D1CE4E5B9);
        z = (z ^ (z >> 27)).wrapping_mul(0x94D049BB133111EB);
        z ^= z >> 31;
        out.extend_from_slice(&z.to_le_bytes());
    }
    Tape::new(out)
}

/// which leaves of a (possibly nested) column are kept
#[derive(Clone, Debug)]
pub enum Keep {
    Leaf(bool),
    Struct(Vec<Keep>),
    List(Box<Keep>),
}
impl Keep {
    pub fn any(&self) -> bool {
        match self {
            Keep::Leaf(b) => *b,
            Keep::Struct(ks) => ks.iter().any(|k| k.any()),
            Keep::List(k) => k.any(),
        }
    }
}

/// number of parquet leaves under an arrow type (depth-first)
pub fn count_leaves(dt: &DataType) -> usize {
    match dt {
        DataType::Struct(fs) => fs.iter().map(|f| count_leaves(f.data_type())).sum(),
        DataType::List(f) | DataType::LargeList(f) => count_leaves(f.data_type()),
        _ => 1,
    }
}

fn keep_tree(dt: &DataType, next: &mut usize, mask: &[bool]) -> Keep {
    match dt {
        DataType::Struct(fs) => Keep::Struct(fs.iter().map(|f| keep_tree(f.data_type(), next, mask)).collect()),
        DataType::List(f) | DataType::LargeList(f) => Keep::List(Box::new(keep_tree(f.data_type(), next, mask))),
        _ => {
            let i = *next;
            *next += 1;
            Keep::Leaf(mask[i])
        }
    }
}

fn prune_field(f: &Field, k: &Keep) -> Option<Field> {
    if !k.any() {
        return None;
    }
    let dt = match (f.data_type(), k) {
        (DataType::Struct(fs), Keep::Struct(ks)) => {
            DataType::Struct(Fields::from(fs.iter().zip(ks).filter_map(|(f, k)| prune_field(f, k)).collect::<Vec<_>>()))
        }
        (DataType::List(c), Keep::List(k)) => DataType::List(Arc::new(prune_field(c, k)?)),
        (DataType::LargeList(c), Keep::List(k)) => DataType::LargeList(Arc::new(prune_field(c, k)?)),
        (dt, _) => dt.clone(),
    };
    Some(f.clone().with_data_type(dt))
}

fn prune_value(v: &LValue, k: &Keep) -> LValue {
    match (v, k) {
        (LValue::Null, _) => LValue::Null,
        (LValue::Struct(vs), Keep::Struct(ks)) => {
            LValue::Struct(vs.iter().zip(ks).filter(|(_, k)| k.any()).map(|(v, k)| prune_value(v, k)).collect())
        }
        (LValue::List(vs), Keep::List(k)) => LValue::List(vs.iter().map(|v| prune_value(v, k)).collect()),
        (v, _) => v.clone(),
    }
}

/// project (schema fields, columns) to the leaves in `mask` — the oracle's own projection
pub fn project(fields: &Fields, cols: &LBatch, mask: &[bool]) -> (Vec<Field>, LBatch) {
    let mut next = 0usize;
    let mut of = vec![];
    let mut oc = vec![];
    for (f, col) in fields.iter().zip(cols) {
        let k = keep_tree(f.data_type(), &mut next, mask);
        if let Some(pf) = prune_field(f, &k) {
            of.push(pf);
            oc.push(col.iter().map(|v| prune_value(v, &k)).collect());
        }
    }
    (of, oc)
}

pub struct PqFile {
    pub bytes: Bytes,
    pub fields: Vec<LField>,
    pub written: LBatch,
    pub rg_rows: Vec<usize>,
    pub total: usize,
    /// metadata loaded with page index policy Optional
    pub meta: ArrowReaderMetadata,
    pub nleaves: usize,
    /// root index of each leaf
    pub leaf_root: Vec<usize>,
    /// dotted parquet path of each leaf
    pub leaf_path: Vec<String>,
    pub has_oi: bool,
    pub has_ci: bool,
    /// [row group][leaf] -> first row index of every data page (empty without offset index)
    pub page_starts: Vec<Vec<Vec<usize>>>,
    /// schema and rows of the unrestricted read
    pub ref_schema: SchemaRef,
    pub reference: LBatch,
    pub max_pages: usize,
    pub nested: bool,
    pub desc: Value,
}

fn gen_rg_rows(t: &mut Tape) -> Vec<usize> {
    let n = *t.pick(&[1usize, 2, 2, 3, 3, 4, 5, 6]);
    (0..n)
        .map(|_| match t.below(10) {
            0 => 1,
            1 => 1 + t.below(400),
            2 => 50 + t.below(60),
            _ => 1 + t.below(40),
        })
        .collect()
}

/// Minimal reproduction of known finding "delta-skip": Int32 column [MIN, 0, MIN, 0, ...] (constant wrapping delta
/// i32::MIN), V2 data pages without dictionary (DELTA_BINARY_PACKED); selection skip 3, select 5.
/// Ok(rows read) or Err(reader error).
pub fn delta_skip_repro() -> Result<(Vec<i32>, Vec<i32>), String> {
    use arrow_array::{ArrayRef, Int32Array};
    let vals: Vec<i32> = (0..8).map(|i| if i % 2 == 0 { i32::MIN } else { 0 }).collect();
    let schema = Arc::new(Schema::new(vec![Field::new("c0", DataType::Int32, false)]));
    let batch = RecordBatch::try_new(schema.clone(), vec![Arc::new(Int32Array::from(vals.clone())) as ArrayRef]).map_err(|e| e.to_string())?;
    let props = WriterProperties::builder().set_writer_version(WriterVersion::PARQUET_2_0).set_dictionary_enabled(false).build();
    let mut buf = vec![];
    let mut w = ArrowWriter::try_new(&mut buf, schema, Some(props)).map_err(|e| e.to_string())?;
    w.write(&batch).map_err(|e| e.to_string())?;
    w.close().map_err(|e| e.to_string())?;
    let sel = RowSelection::from(vec![RowSelector::skip(3), RowSelector::select(5)]);
    let rdr = ParquetRecordBatchReaderBuilder::try_new(Bytes::from(buf)).map_err(|e| e.to_string())?.with_row_selection(sel).build().map_err(|e| e.to_string())?;
    let mut got: Vec<i32> = vec![];
    for b in rdr {
        let b = b.map_err(|e| e.to_string())?;
        got.extend(b.column(0).as_any().downcast_ref::<Int32Array>().unwrap().values().iter().copied());
    }
    Ok((got, vals[3..].to_vec()))
}

pub fn delta_skip_bug_present() -> bool {
    static PRESENT: std::sync::OnceLock<bool> = std::sync::OnceLock::new();
    *PRESENT.get_or_init(|| !matches!(catch(delta_skip_repro), Ok(Ok((g, w))) if g == w))
}

fn small_int(ty: &LType) -> bool {
    match ty {
        LType::Int { bits, .. } => *bits <= 32,
        LType::Dict { value, .. } => small_int(value),
        _ => false,
    }
}

/// flatten the non-null values of every <=32-bit integer leaf of a column (depth-first leaf order)
fn flatten_small_ints(ty: &LType, v: &LValue, leaf: &mut usize, out: &mut Vec<Vec<i64>>) {
    match (ty, v) {
        (LType::Struct(fs), LValue::Struct(vs)) => {
            for (f, x) in fs.iter().zip(vs) {
                flatten_small_ints(&f.ty, x, leaf, out);
            }
        }
        (LType::Struct(fs), _) => {
            for f in fs {
                flatten_small_ints(&f.ty, &LValue::Null, leaf, out);
            }
        }
        (LType::List(f, _), LValue::List(xs)) => {
            let start = *leaf;
            let mut end = start;
            for x in xs {
                *leaf = start;
                flatten_small_ints(&f.ty, x, leaf, out);
                end = *leaf;
            }
            if xs.is_empty() {
                flatten_small_ints(&f.ty, &LValue::Null, leaf, out);
            } else {
                *leaf = end;
            }
        }
        (LType::List(f, _), _) => flatten_small_ints(&f.ty, &LValue::Null, leaf, out),
        (t, v) => {
            if out.len() <= *leaf {
                out.resize(*leaf + 1, vec![]);
            }
            if small_int(t) {
                if let LValue::Int(i) = v {
                    out[*leaf].push(*i as i64);
                }
            }
            *leaf += 1;
        }
    }
}

fn delta_skip_shape(ty: &LType, col: &[LValue]) -> bool {
    if !ty.any(&|t| small_int(t)) {
        return false;
    }
    let mut streams: Vec<Vec<i64>> = vec![];
    for v in col {
        let mut leaf = 0;
        flatten_small_ints(ty, v, &mut leaf, &mut streams);
    }
    streams.iter().any(|s| {
        s.windows(3).any(|w| {
            let d1 = (w[1] as i32).wrapping_sub(w[0] as i32);
            let d2 = (w[2] as i32).wrapping_sub(w[1] as i32);
            d1 == d2 && (d1 as i64).abs() >= 1 << 26
        })
    })
}

fn shrink_small_ints(ty: &LType, v: &mut LValue) {
    match (ty, v) {
        (LType::Struct(fs), LValue::Struct(vs)) => {
            for (f, x) in fs.iter().zip(vs.iter_mut()) {
                shrink_small_ints(&f.ty, x);
            }
        }
        (LType::List(f, _), LValue::List(xs)) => {
            for x in xs.iter_mut() {
                shrink_small_ints(&f.ty, x);
            }
        }
        (t, LValue::Int(i)) if small_int(t) => *i >>= 7,
        _ => {}
    }
}

pub fn gen_file(c: &mut Case) -> Result<PqFile, Fail> {
    let strict = c.strict;
    let t = &mut c.tape;
    let wide = t.chance(90);
    let cfg = if wide { wide_type_cfg() } else { type_cfg() };
    let ncols = *t.pick(&[1usize, 2, 2, 3, 3, 4]);
    // 0: flat file, 1: free choice, 2: first column nested, 3: first column a list, 4: first column a list of structs
    let shape = *t.pick(&[1usize, 0, 2, 3, 1, 0, 4, 3]);
    let force_dict = t.chance(64);
    let mut flat_cfg = cfg.clone();
    flat_cfg.nested = false;
    let mut fields: Vec<LField> = vec![];
    for i in 0..ncols {
        let ty = if shape == 0 {
            gen_type(t, &flat_cfg)
        } else if i == 0 && shape == 2 {
            gen_type_where(t, &cfg, &|ty| ty.is_nested())
        } else if i == 0 && shape == 3 {
            gen_type_where(t, &cfg, &|ty| matches!(ty, LType::List(..)))
        } else if i == 0 && shape == 4 {
            let n = 1 + t.below(3);
            let fs: Vec<LField> = (0..n).map(|j| LField { name: ["a", "b", "c"][j].to_string(), ty: gen_type(t, &flat_cfg), nullable: !t.chance(64) }).collect();
            LType::List(Box::new(LField { name: "item".into(), ty: LType::Struct(fs), nullable: !t.chance(64) }), ListEnc::O32)
        } else if i + 1 == ncols && force_dict {
            gen_type_where(t, &flat_cfg, &|ty| matches!(ty, LType::Dict { .. }))
        } else {
            gen_type(t, &cfg)
        };
        let nullable = !t.chance(48);
        fields.push(LField { name: format!("c{}", i), ty, nullable });
    }
    let mut wide_excluded: Vec<&'static str> = vec![];
    if wide {
        // stay inside the committed writer grid and away from the shapes of the open C05 findings (reported there)
        for f in fields.iter_mut() {
            let bad = !pq_gen::grid_supports(&f.ty) || pq_gen::unclaimed(&f.ty) || f.ty.any(&|x| matches!(x, LType::FixedBinary(0)));
            let known = if strict { None } else { pq_gen::known_defect(&f.ty) };
            if let Some(k) = known {
                wide_excluded.push(k);
            }
            if bad || known.is_some() {
                f.ty = LType::Int { bits: 32, signed: true };
            }
            if !strict && pq_gen::unmasked_null_shape(f) {
                wide_excluded.push("C05-reader-unmasked-nulls");
                f.ty = LType::Int { bits: 32, signed: true };
            }
        }
    }
    // a type search that failed falls back to Int32; make sure there is the promised list
    if shape == 3 && !matches!(fields[0].ty, LType::List(..)) {
        fields[0].ty = LType::List(Box::new(LField::new("item", LType::Int { bits: 32, signed: true }, true)), ListEnc::O32);
    }
    let rg_rows = gen_rg_rows(t);
    let total: usize = rg_rows.iter().sum();
    let vcfg = ValCfg { max_str: 12, max_list: 4, ..ValCfg::default() };
    let written: LBatch = if total > 48 {
        let seed = t.u64();
        let mut dt = expand_tape(seed, total * ncols * 24 + 64);
        gen_lbatch(&mut dt, &fields, total, &vcfg)
    } else {
        gen_lbatch(t, &fields, total, &vcfg)
    };
    // writer properties
    let v2 = t.bool();
    let page_rows = 1 + t.below(50);
    let wbs = match t.below(4) {
        0 => page_rows,
        1 => 1,
        _ => *t.pick(&[2usize, 3, 7, 16, 5]),
    };
    let dict = !t.chance(64);
    let dict_limit = *t.pick(&[1usize << 20, 24, 64, 200]);
    let page_bytes = *t.pick(&[1usize << 20, 1 << 20, 1 << 20, 64, 256]);
    let stats = *t.pick(&[EnabledStatistics::Page, EnabledStatistics::Chunk, EnabledStatistics::None, EnabledStatistics::Page]);
    let oi_disabled = t.chance(64);
    let snappy = t.chance(48);
    let mut pb = WriterProperties::builder()
        .set_writer_version(if v2 { WriterVersion::PARQUET_2_0 } else { WriterVersion::PARQUET_1_0 })
        .set_data_page_row_count_limit(page_rows)
        .set_write_batch_size(wbs)
        .set_dictionary_enabled(dict)
        .set_dictionary_page_size_limit(dict_limit)
        .set_data_page_size_limit(page_bytes)
        .set_statistics_enabled(stats)
        .set_offset_index_disabled(oi_disabled)
        .set_compression(if snappy { Compression::SNAPPY } else { Compression::UNCOMPRESSED })
        .set_max_row_group_row_count(None);
    let mut col_overrides = vec![];
    if wide {
        // per-column value encodings (every encoding the format allows for the physical type) and dictionary switches
        let arrow_schema = schema_of(&fields, None);
        let descr = pq_gen::parquet_schema(&arrow_schema)?;
        let mut leaves = vec![];
        for f in &fields {
            pq_gen::leaves_of(&f.ty, &mut leaves);
        }
        if leaves.len() == descr.num_columns() {
            for (i, col) in descr.columns().iter().enumerate() {
                let path = col.path().clone();
                if t.chance(110) {
                    let legal = pq_gen::legal_encodings(col.physical_type(), &leaves[i]);
                    let e = *t.pick(&legal);
                    pb = pb.set_column_encoding(path.clone(), e);
                    col_overrides.push(format!("{}:{:?}", path.string(), e));
                }
                if t.chance(100) {
                    pb = pb.set_column_dictionary_enabled(path.clone(), false);
                    col_overrides.push(format!("{}:no-dict", path.string()));
                }
            }
        }
    }
    let props = pb.build();
    if wide {
        c.classes.push("file:wide-types".to_string());
        for o in &col_overrides {
            let k = o.rsplit(':').next().unwrap_or("");
            let cl = format!("col-override:{}", k);
            if !c.classes.contains(&cl) {
                c.classes.push(cl);
            }
        }
        for k in &wide_excluded {
            c.excluded.push(k.to_string());
        }
    }
    // Known finding "delta-skip" (DeltaBitPackDecoder::skip, 32-bit physical type): a run of equal non-zero
    // wrapping deltas d with |d| * (values skipped in the mini block) > i32::MAX makes skip() fail with
    // "delta*n overflow in skip" although get() decodes the same page. The V2 writer uses DELTA_BINARY_PACKED
    // for non-dictionary integer pages. Avoided by construction while the minimal reproduction still fails (probed once
    // per process, so replay files stay faithful and the exclusion disappears with a fix) (conservatively: two consecutive equal deltas
    // with |d| >= 2^26 anywhere in a 32-bit integer leaf): the values of that column are scaled down.
    let mut written = written;
    if v2 && delta_skip_bug_present() {
        for (f, col) in fields.iter().zip(written.iter_mut()) {
            if delta_skip_shape(&f.ty, col) {
                for v in col.iter_mut() {
                    shrink_small_ints(&f.ty, v);
                }
                c.excluded.push("delta-skip".to_string());
            }
        }
    }
    let schema = schema_of(&fields, None);
    let fancy = t.chance(40);
    let lay = if fancy { Lay::fancy() } else { Lay::plain() };
    let mut buf: Vec<u8> = vec![];
    {
        let mut w = match ArrowWriter::try_new(&mut buf, schema.clone(), Some(props)) {
            Ok(w) => w,
            Err(e) => fail!("write:try_new", "ArrowWriter::try_new: {}", e),
        };
        let mut start = 0usize;
        for &n in &rg_rows {
            // one or two write calls per row group
            let cut = if n >= 2 && t.chance(80) { 1 + t.below(n - 1) } else { n };
            for (a, b) in [(start, start + cut), (start + cut, start + n)] {
                if a == b {
                    continue;
                }
                let part: LBatch = written.iter().map(|col| col[a..b].to_vec()).collect();
                let batch = no_panic("realise_batch", || realise_batch(t, &schema, &fields, &part, b - a, &lay))?;
                if let Err(e) = no_panic("write", || w.write(&batch))? {
                    fail!("write:err", "ArrowWriter::write: {}", e);
                }
            }
            if let Err(e) = no_panic("write:flush", || w.flush())? {
                fail!("write:flush-err", "ArrowWriter::flush: {}", e);
            }
            start += n;
        }
        if let Err(e) = no_panic("write:close", || w.close())? {
            fail!("write:close-err", "ArrowWriter::close: {}", e);
        }
    }
    let bytes = Bytes::from(buf);
    let opts = ArrowReaderOptions::new().with_page_index_policy(PageIndexPolicy::Optional);
    let meta = match no_panic("meta:load", || ArrowReaderMetadata::load(&bytes, opts))? {
        Ok(m) => m,
        Err(e) => fail!("meta:err", "metadata of a freshly written file does not load: {}", e),
    };
    let md = meta.metadata().clone();
    let got_rows: Vec<usize> = md.row_groups().iter().map(|r| r.num_rows() as usize).collect();
    ensure!(got_rows == rg_rows, "write:row-groups", "row groups {:?} written as {:?}", rg_rows, got_rows);
    let descr = md.file_metadata().schema_descr_ptr();
    let nleaves = descr.num_columns();
    let model_leaves: usize = schema.fields().iter().map(|f| count_leaves(f.data_type())).sum();
    ensure!(nleaves == model_leaves, "schema:leaves", "parquet schema has {} leaves, arrow schema {}", nleaves, model_leaves);
    let leaf_root: Vec<usize> = (0..nleaves).map(|i| descr.get_column_root_idx(i)).collect();
    let leaf_path: Vec<String> = descr.columns().iter().map(|c| c.path().string()).collect();
    let pi = md.page_index();
    let has_oi = pi.map(|p| p.has_offset_indexes()).unwrap_or(false);
    let has_ci = pi.map(|p| p.has_column_indexes()).unwrap_or(false);
    let mut page_starts = vec![];
    let mut max_pages = 0;
    for rg in 0..rg_rows.len() {
        let mut per = vec![];
        for leaf in 0..nleaves {
            let v: Vec<usize> = pi
                .and_then(|p| p.offset_index(rg, leaf))
                .map(|oi| oi.page_locations().iter().map(|p| p.first_row_index as usize).collect())
                .unwrap_or_default();
            max_pages = max_pages.max(v.len());
            per.push(v);
        }
        page_starts.push(per);
    }
    // unrestricted read = the reference
    let (ref_schema, reference) = {
        let b = match no_panic("full-read:builder", || ParquetRecordBatchReaderBuilder::try_new(bytes.clone()))? {
            Ok(b) => b,
            Err(e) => fail!("full-read:err", "builder: {}", e),
        };
        let full_schema = b.schema().clone();
        let rdr = match no_panic("full-read:build", || b.with_batch_size(total.max(1)).build())? {
            Ok(r) => r,
            Err(e) => fail!("full-read:err", "build: {}", e),
        };
        let mut acc: LBatch = vec![vec![]; ncols];
        let batches = no_panic("full-read", || rdr.collect::<Result<Vec<RecordBatch>, _>>())?;
        let batches = match batches {
            Ok(b) => b,
            Err(e) => fail!("full-read:err", "unrestricted read failed: {}", e),
        };
        for b in &batches {
            let lb = extract_batch(b);
            for (a, c) in acc.iter_mut().zip(lb) {
                a.extend(c);
            }
        }
        (Arc::new(Schema::new(full_schema.fields().clone())), acc)
    };
    if let Some((ci, r)) = lbatch_diff(&reference, &written) {
        fail!(
            "full-read:differs-from-written",
            "unrestricted read differs from what was written at column {} row {}: read {:?} written {:?}",
            ci,
            r,
            reference.get(ci).and_then(|x| x.get(r)),
            written.get(ci).and_then(|x| x.get(r))
        );
    }
    let nested = fields.iter().any(|f| f.ty.is_nested());
    let desc = json!({
        "fields": fields.iter().map(|f| format!("{}: {}{}", f.name, f.ty.arrow(), if f.nullable {"?"} else {""})).collect::<Vec<_>>(),
        "row_groups": rg_rows, "v2": v2, "page_rows": page_rows, "write_batch": wbs, "dict": dict, "dict_limit": dict_limit,
        "page_bytes": page_bytes, "stats": format!("{:?}", stats), "oi_disabled": oi_disabled, "has_oi": has_oi, "snappy": snappy,
        "fancy_layout": fancy, "file_len": bytes.len(), "max_pages_per_chunk": max_pages,
    });
    Ok(PqFile {
        bytes,
        fields,
        written,
        rg_rows,
        total,
        meta,
        nleaves,
        leaf_root,
        leaf_path,
        has_oi,
        has_ci,
        page_starts,
        ref_schema,
        reference,
        max_pages,
        nested,
        desc,
    })
}

impl PqFile {
    pub fn descr(&self) -> Arc<SchemaDescriptor> {
        self.meta.metadata().file_metadata().schema_descr_ptr()
    }
    pub fn rg_start(&self, rg: usize) -> usize {
        self.rg_rows[..rg].iter().sum()
    }
    pub fn file_classes(&self, c: &mut Case) {
        c.class(if self.nested { "file:nested" } else { "file:flat" });
        c.class(if self.has_oi { "file:offset-index" } else { "file:no-offset-index" });
        c.class(format!("file:row-groups={}", self.rg_rows.len().min(4)));
        if self.max_pages >= 2 {
            c.class("file:multi-page");
        }
        for f in &self.fields {
            c.class(format!("col:{}", f.ty.family()));
            if let LType::List(inner, _) = &f.ty {
                if matches!(inner.ty, LType::Struct(_)) {
                    c.class("col:list-of-struct");
                }
            }
        }
    }
}

// =================================================================================================
// read configuration
// =================================================================================================

#[derive(Clone, Debug)]
pub enum ProjKind {
    All,
    Leaves(Vec<usize>),
    Roots(Vec<usize>),
    Columns(Vec<String>),
}

#[derive(Clone, Copy, Debug, PartialEq)]
pub enum PredKind {
    Mod { m: i128, r: i128 },
    NotNull,
    ListLen { k: usize },
    NullSome { m: i128 },
    True,
    False,
}

#[derive(Clone, Debug)]
pub struct PredSpec {
    pub mask: Vec<bool>,
    pub kind: PredKind,
    /// how the predicate's ProjectionMask is built (leaves / roots)
    pub by_roots: Option<Vec<usize>>,
}

#[derive(Clone, Debug)]
pub enum SelBuild {
    /// raw runs as given to `RowSelection::from(Vec<RowSelector>)` (may contain empty runs and adjacent equal kinds)
    Selectors(Vec<(bool, usize)>),
    /// `from_boolean_buffer`, the buffer sliced at this bit offset
    Mask(usize),
    /// `from_filters` with these chunk lengths
    Filters(Vec<usize>),
    /// `from_consecutive_ranges`
    Ranges(Vec<Range<usize>>),
}

#[derive(Clone, Debug)]
pub struct SelSpec {
    /// true = selected, one entry per row of the chosen row groups
    pub pos: Vec<bool>,
    pub build: SelBuild,
    pub pattern: &'static str,
}

#[derive(Clone, Debug)]
pub struct ReadCfg {
    pub proj: ProjKind,
    pub mask: Vec<bool>,
    pub row_groups: Option<Vec<usize>>,
    pub sel: Option<SelSpec>,
    pub preds: Vec<PredSpec>,
    pub empty_filter: bool,
    pub offset: Option<usize>,
    pub limit: Option<usize>,
    pub batch_size: usize,
    pub policy: RowSelectionPolicy,
    pub ci_policy: PageIndexPolicy,
    pub oi_policy: PageIndexPolicy,
    pub cache: Option<usize>,
}

fn key(v: &LValue) -> Option<i128> {
    match v {
        LValue::Null => None,
        LValue::Bool(b) => Some(*b as i128),
        LValue::Int(i) => Some(*i),
        LValue::F16(b) => Some(*b as i128),
        LValue::F32(b) => Some(*b as i128),
        LValue::F64(b) => Some((*b >> 3) as i128),
        LValue::Str(s) => Some(s.len() as i128 + 7 * s.bytes().next().unwrap_or(0) as i128),
        LValue::Bytes(s) => Some(s.len() as i128),
        LValue::List(xs) => Some(xs.len() as i128 + xs.first().and_then(key).unwrap_or(0)),
        LValue::Struct(fs) => Some(fs.iter().filter_map(key).sum()),
        _ => Some(0),
    }
}
fn first_list_len(v: &LValue) -> Option<usize> {
    match v {
        LValue::List(xs) => Some(xs.len()),
        LValue::Struct(fs) => fs.iter().find_map(first_list_len),
        _ => None,
    }
}

/// the predicate as a pure function of the (projected) row; None = SQL null = not selected
pub fn pred_eval(kind: PredKind, row: &[&LValue]) -> Option<bool> {
    match kind {
        PredKind::True => Some(true),
        PredKind::False => Some(false),
        PredKind::NotNull => Some(!row[0].is_null()),
        PredKind::Mod { m, r } => {
            let k0 = key(row[0])?;
            let rest: i128 = row[1..].iter().filter_map(|v| key(v)).sum();
            Some((k0.wrapping_add(rest)).rem_euclid(m) == r)
        }
        PredKind::ListLen { k } => first_list_len(row[0]).map(|n| n >= k),
        PredKind::NullSome { m } => match key(row[0]) {
            None => Some(true),
            Some(k) if k.rem_euclid(m) == 0 => None,
            Some(_) => Some(true),
        },
    }
}

fn leaves_of_root(f: &PqFile, root: usize) -> Vec<usize> {
    (0..f.nleaves).filter(|l| f.leaf_root[*l] == root).collect()
}

fn gen_projection(t: &mut Tape, f: &PqFile) -> (ProjKind, Vec<bool>) {
    let nroots = f.fields.len();
    let n = f.nleaves;
    match t.below(8) {
        0 | 1 => (ProjKind::All, vec![true; n]),
        2 | 3 => {
            // subset of leaves, possibly repeated / out of order
            let k = 1 + t.below(n);
            let mut idx: Vec<usize> = (0..k).map(|_| t.below(n)).collect();
            if t.chance(64) {
                idx.push(idx[0]);
            }
            let mut m = vec![false; n];
            for i in &idx {
                m[*i] = true;
            }
            (ProjKind::Leaves(idx), m)
        }
        4 | 5 => {
            let k = 1 + t.below(nroots);
            let idx: Vec<usize> = (0..k).map(|_| t.below(nroots)).collect();
            let m = (0..n).map(|l| idx.contains(&f.leaf_root[l])).collect();
            (ProjKind::Roots(idx), m)
        }
        6 => {
            // by name: root names and/or full leaf paths
            let k = 1 + t.below(2);
            let mut names = vec![];
            let mut m = vec![false; n];
            for _ in 0..k {
                if t.bool() {
                    let r = t.below(nroots);
                    names.push(f.fields[r].name.clone());
                    for l in leaves_of_root(f, r) {
                        m[l] = true;
                    }
                } else {
                    let l = t.below(n);
                    names.push(f.leaf_path[l].clone());
                    m[l] = true;
                }
            }
            (ProjKind::Columns(names), m)
        }
        _ => {
            // a single leaf
            let l = t.below(n);
            let mut m = vec![false; n];
            m[l] = true;
            (ProjKind::Leaves(vec![l]), m)
        }
    }
}

fn gen_pred(t: &mut Tape, f: &PqFile, out_mask: &[bool]) -> PredSpec {
    let n = f.nleaves;
    let nroots = f.fields.len();
    let mut mask = vec![false; n];
    let mut by_roots = None;
    match t.below(6) {
        0 | 1 | 2 => {
            // one whole root column; biased to a column that is also in the output (cache reuse path)
            let mut r = t.below(nroots);
            if t.bool() {
                if let Some(l) = (0..n).find(|l| out_mask[*l]) {
                    r = f.leaf_root[l];
                }
            }
            for l in leaves_of_root(f, r) {
                mask[l] = true;
            }
            if t.bool() {
                by_roots = Some(vec![r]);
            }
        }
        3 => {
            // a single leaf (possibly inside a nested column)
            mask[t.below(n)] = true;
        }
        4 => {
            // two roots
            let a = t.below(nroots);
            let b = t.below(nroots);
            for l in 0..n {
                if f.leaf_root[l] == a || f.leaf_root[l] == b {
                    mask[l] = true;
                }
            }
            by_roots = Some(vec![a, b]);
        }
        _ => {
            // a leaf that is NOT in the output if there is one
            let l = (0..n).find(|l| !out_mask[*l]).unwrap_or_else(|| t.below(n));
            mask[l] = true;
        }
    }
    // list-length tests only where the first predicate column contains a list (otherwise every row evaluates to null)
    let first_root = (0..n).find(|l| mask[*l]).map(|l| f.leaf_root[l]).unwrap_or(0);
    let has_list = f.fields[first_root].ty.any(&|ty| matches!(ty, LType::List(..)));
    let modk = |t: &mut Tape| {
        let m = *t.pick(&[2i128, 3, 2, 5]);
        PredKind::Mod { m, r: t.below(m as usize) as i128 }
    };
    let kind = match t.below(24) {
        0..=10 => modk(t),
        11..=14 => PredKind::NotNull,
        15..=19 => {
            if has_list {
                PredKind::ListLen { k: t.below(4) }
            } else {
                modk(t)
            }
        }
        20 | 21 => PredKind::NullSome { m: *t.pick(&[2i128, 3]) },
        22 => PredKind::True,
        _ => PredKind::False,
    };
    PredSpec { mask, kind, by_roots }
}

fn runs_of(pos: &[bool]) -> Vec<(bool, usize)> {
    // (selected, len)
    let mut out: Vec<(bool, usize)> = vec![];
    for &p in pos {
        match out.last_mut() {
            Some((k, n)) if *k == p => *n += 1,
            _ => out.push((p, 1)),
        }
    }
    out
}

/// boundaries (within the chosen rows) of row groups and of the pages of one leaf
fn boundaries(t: &mut Tape, f: &PqFile, rgs: &[usize]) -> (Vec<usize>, Vec<usize>) {
    let leaf = t.below(f.nleaves);
    let mut rgb = vec![];
    let mut pgb = vec![];
    let mut off = 0;
    for &rg in rgs {
        for &s in &f.page_starts[rg][leaf] {
            if s > 0 {
                pgb.push(off + s);
            }
        }
        off += f.rg_rows[rg];
        rgb.push(off);
    }
    rgb.pop();
    (rgb, pgb)
}

fn near(t: &mut Tape, b: usize, n: usize) -> usize {
    let d = t.below(3) as i64 - 1;
    ((b as i64 + d).max(0) as usize).min(n)
}

pub fn gen_selection(t: &mut Tape, f: &PqFile, rgs: &[usize]) -> SelSpec {
    let n: usize = rgs.iter().map(|r| f.rg_rows[*r]).sum();
    let (rgb, pgb) = boundaries(t, f, rgs);
    let mut all_b: Vec<usize> = rgb.iter().chain(pgb.iter()).copied().collect();
    all_b.sort();
    all_b.dedup();
    let pick_point = |t: &mut Tape| -> usize {
        if !all_b.is_empty() && t.chance(160) {
            let b = all_b[t.below(all_b.len())];
            near(t, b, n)
        } else {
            t.below(n + 1)
        }
    };
    let mut pos = vec![false; n];
    let pattern: &'static str;
    match t.below(12) {
        0 => {
            pattern = "all";
            pos = vec![true; n];
        }
        1 => {
            pattern = "none";
        }
        2 => {
            pattern = "single-select";
            let a = pick_point(t);
            let b = pick_point(t);
            let (a, b) = (a.min(b), a.max(b));
            let b = if a == b { (b + 1).min(n) } else { b };
            for p in pos.iter_mut().take(b).skip(a) {
                *p = true;
            }
        }
        3 => {
            pattern = "single-skip";
            pos = vec![true; n];
            let a = pick_point(t);
            let b = pick_point(t);
            let (a, b) = (a.min(b), a.max(b));
            let b = if a == b { (b + 1).min(n) } else { b };
            for p in pos.iter_mut().take(b).skip(a) {
                *p = false;
            }
        }
        4 => {
            pattern = "alternating";
            let k = *t.pick(&[1usize, 1, 2, 3, 31, 32, 33, 7]);
            let k2 = if t.bool() { k } else { *t.pick(&[1usize, 2, 5, 32]) };
            let first = t.bool();
            let mut i = 0;
            let mut on = first;
            while i < n {
                let len = if on { k } else { k2 };
                for p in pos.iter_mut().take((i + len).min(n)).skip(i) {
                    *p = on;
                }
                i += len;
                on = !on;
            }
        }
        5 => {
            pattern = "page-aligned";
            let mut cuts = all_b.clone();
            cuts.push(n);
            let mut a = 0;
            for b in cuts {
                let on = t.bool();
                for p in pos.iter_mut().take(b.min(n)).skip(a) {
                    *p = on;
                }
                a = b.min(n);
            }
        }
        6 => {
            pattern = "page-straddling";
            let mut cuts: Vec<usize> = all_b.iter().map(|b| near(t, *b, n)).collect();
            cuts.push(n);
            cuts.sort();
            let mut a = 0;
            let mut on = t.bool();
            for b in cuts {
                for p in pos.iter_mut().take(b).skip(a) {
                    *p = on;
                }
                if b > a {
                    on = !on;
                }
                a = b;
            }
        }
        7 => {
            pattern = "group-straddling";
            let b = if rgb.is_empty() { n / 2 } else { rgb[t.below(rgb.len())] };
            let x = 1 + t.below(4);
            let y = 1 + t.below(4);
            let on = !t.chance(64);
            if !on {
                pos = vec![true; n];
            }
            for p in pos.iter_mut().take((b + y).min(n)).skip(b.saturating_sub(x)) {
                *p = on;
            }
        }
        8 => {
            pattern = "sparse";
            let k = 1 + t.below(4);
            for _ in 0..k {
                let p = pick_point(t);
                if p < n {
                    pos[p] = true;
                }
            }
        }
        9 => {
            pattern = "dense";
            pos = vec![true; n];
            let k = 1 + t.below(4);
            for _ in 0..k {
                let p = pick_point(t);
                if p < n {
                    pos[p] = false;
                }
            }
        }
        _ => {
            pattern = "random-runs";
            let mut i = 0;
            let mut on = t.bool();
            let scale = *t.pick(&[2usize, 4, 10, 40]);
            while i < n {
                let len = 1 + t.below(scale);
                for p in pos.iter_mut().take((i + len).min(n)).skip(i) {
                    *p = on;
                }
                i += len;
                on = !on;
            }
        }
    }
    let runs = runs_of(&pos);
    let build = match t.below(8) {
        0 | 1 | 2 => {
            // Vec<RowSelector>, with empty runs interleaved and runs split in two
            let mut raw: Vec<(bool, usize)> = vec![];
            let noisy = t.chance(110);
            for (k, len) in &runs {
                if noisy && t.chance(70) {
                    raw.push((t.bool(), 0));
                }
                if noisy && *len >= 2 && t.chance(60) {
                    let a = 1 + t.below(len - 1);
                    raw.push((*k, a));
                    if t.chance(80) {
                        raw.push((!*k, 0));
                    }
                    raw.push((*k, len - a));
                } else {
                    raw.push((*k, *len));
                }
            }
            if noisy && t.chance(70) {
                raw.push((t.bool(), 0));
            }
            SelBuild::Selectors(raw)
        }
        3 | 4 => SelBuild::Mask(if t.bool() { 0 } else { t.bias_offset() }),
        5 | 6 => {
            let mut chunks = vec![];
            let mut left = n;
            while left > 0 {
                let k = if t.u8() >= 216 { 0 } else { 1 + t.below(left.min(70)) };
                chunks.push(k);
                left -= k;
            }
            if t.chance(40) {
                chunks.push(0);
            }
            SelBuild::Filters(chunks)
        }
        _ => {
            let mut ranges = vec![];
            let mut p = 0;
            for (k, len) in &runs {
                if *k {
                    if *len >= 2 && t.chance(60) {
                        let a = 1 + t.below(len - 1);
                        ranges.push(p..p + a);
                        ranges.push(p + a..p + len);
                    } else {
                        ranges.push(p..p + len);
                    }
                    if t.chance(30) {
                        ranges.push(p + len..p + len);
                    }
                }
                p += len;
            }
            SelBuild::Ranges(ranges)
        }
    };
    SelSpec { pos, build, pattern }
}

impl SelSpec {
    pub fn build(&self) -> RowSelection {
        match &self.build {
            SelBuild::Selectors(raw) => RowSelection::from(
                raw.iter().map(|(k, n)| if *k { RowSelector::select(*n) } else { RowSelector::skip(*n) }).collect::<Vec<_>>(),
            ),
            SelBuild::Mask(off) => {
                let mut v: Vec<bool> = (0..*off).map(|i| i % 3 == 0).collect();
                v.extend_from_slice(&self.pos);
                v.push(true);
                let b = BooleanBuffer::from(v);
                RowSelection::from_boolean_buffer(b.slice(*off, self.pos.len()))
            }
            SelBuild::Filters(chunks) => {
                let mut p = 0;
                let arrs: Vec<BooleanArray> = chunks
                    .iter()
                    .map(|k| {
                        let a = BooleanArray::from(self.pos[p..p + k].to_vec());
                        p += k;
                        a
                    })
                    .collect();
                RowSelection::from_filters(&arrs)
            }
            SelBuild::Ranges(r) => RowSelection::from_consecutive_ranges(r.clone().into_iter(), self.pos.len()),
        }
    }
    pub fn nruns(&self) -> usize {
        runs_of(&self.pos).len()
    }
}

fn gen_count(t: &mut Tape, rows: usize, specials: &[usize]) -> usize {
    match t.below(12) {
        0 => 0,
        1 => rows,
        2 => rows + 1,
        3 | 4 | 5 if !specials.is_empty() => specials[t.below(specials.len())].min(rows + 1),
        6 | 7 => t.below(rows.min(8) + 1),
        8 | 9 => t.below(rows / 3 + 2),
        _ => t.below(rows + 2),
    }
}

pub struct CfgOpts {
    /// chance (x/256) of a selection, predicates, offset, limit
    pub sel: u32,
    pub preds: u32,
    pub offlim: u32,
    pub with_cache: bool,
}
impl Default for CfgOpts {
    fn default() -> Self {
        CfgOpts { sel: 170, preds: 150, offlim: 90, with_cache: false }
    }
}

/// true with probability num/256; false when the tape is exhausted (zero = the simplest configuration)
fn likely(t: &mut Tape, num: u32) -> bool {
    (t.u8() as u32) + num >= 256
}

pub fn gen_cfg(t: &mut Tape, f: &PqFile, o: &CfgOpts) -> ReadCfg {
    let (proj, mask) = gen_projection(t, f);
    let nrg = f.rg_rows.len();
    let row_groups: Option<Vec<usize>> = if nrg >= 1 && likely(t, 110) {
        // subset in file order
        let mut v: Vec<usize> = (0..nrg).filter(|_| t.chance(150)).collect();
        if v.is_empty() && !t.chance(20) {
            v.push(t.below(nrg));
        }
        Some(v)
    } else {
        None
    };
    let rgs: Vec<usize> = row_groups.clone().unwrap_or_else(|| (0..nrg).collect());
    let rows: usize = rgs.iter().map(|r| f.rg_rows[*r]).sum();
    let sel = if likely(t, o.sel) { Some(gen_selection(t, f, &rgs)) } else { None };
    let npreds = if likely(t, o.preds) { 1 + t.below(3) } else { 0 };
    let preds: Vec<PredSpec> = (0..npreds).map(|_| gen_pred(t, f, &mask)).collect();
    let empty_filter = npreds == 0 && t.chance(16);
    let batch_size = match t.below(8) {
        0 => 1,
        1 => 2,
        2 => 3,
        3 => 7,
        4 => 64,
        5 => f.total,
        6 => f.total + 1,
        _ => 1 + t.below(f.total + 1),
    };
    let specials = [batch_size, 2 * batch_size, f.rg_rows[rgs.first().copied().unwrap_or(0)], batch_size.saturating_sub(1)];
    let offset = if likely(t, o.offlim) { Some(gen_count(t, rows, &specials)) } else { None };
    let limit = if likely(t, o.offlim) { Some(gen_count(t, rows, &specials)) } else { None };
    let policy = match t.below(8) {
        0 | 1 => RowSelectionPolicy::Selectors,
        2 | 3 => RowSelectionPolicy::Mask,
        4 => RowSelectionPolicy::default(),
        5 => RowSelectionPolicy::Auto { threshold: 1 },
        6 => RowSelectionPolicy::Auto { threshold: 32 },
        _ => RowSelectionPolicy::Auto { threshold: *t.pick(&[2usize, 3, 8, 33, 1000, 0]) },
    };
    let pol = |t: &mut Tape, present: bool| match t.below(4) {
        0 => PageIndexPolicy::Skip,
        1 if present => PageIndexPolicy::Required,
        _ => PageIndexPolicy::Optional,
    };
    let oi_policy = pol(t, f.has_oi);
    let ci_policy = if t.chance(200) {
        // usually the same policy for both (with_page_index_policy), when that is valid
        match oi_policy {
            PageIndexPolicy::Required if !f.has_ci => PageIndexPolicy::Optional,
            p => p,
        }
    } else {
        pol(t, f.has_ci)
    };
    let cache = if o.with_cache {
        match t.below(4) {
            0 => Some(0),
            1 => Some(*t.pick(&[1usize, 16, 64, 400])),
            2 => Some(usize::MAX),
            _ => None,
        }
    } else {
        None
    };
    ReadCfg { proj, mask, row_groups, sel, preds, empty_filter, offset, limit, batch_size, policy, ci_policy, oi_policy, cache }
}

impl ReadCfg {
    pub fn rgs(&self, f: &PqFile) -> Vec<usize> {
        self.row_groups.clone().unwrap_or_else(|| (0..f.rg_rows.len()).collect())
    }
    pub fn rows(&self, f: &PqFile) -> usize {
        self.rgs(f).iter().map(|r| f.rg_rows[*r]).sum()
    }
    pub fn eff_batch(&self, f: &PqFile) -> usize {
        self.batch_size.min(f.total)
    }
    pub fn options(&self) -> ArrowReaderOptions {
        if self.ci_policy == self.oi_policy {
            ArrowReaderOptions::new().with_page_index_policy(self.oi_policy)
        } else {
            ArrowReaderOptions::new().with_column_index_policy(self.ci_policy).with_offset_index_policy(self.oi_policy)
        }
    }
    pub fn projection_mask(&self, d: &SchemaDescriptor) -> Option<ProjectionMask> {
        match &self.proj {
            ProjKind::All => None,
            ProjKind::Leaves(i) => Some(ProjectionMask::leaves(d, i.clone())),
            ProjKind::Roots(i) => Some(ProjectionMask::roots(d, i.clone())),
            ProjKind::Columns(n) => Some(ProjectionMask::columns(d, n.iter().map(|s| s.as_str()))),
        }
    }
    pub fn filter(&self, d: &SchemaDescriptor) -> Option<RowFilter> {
        if self.preds.is_empty() {
            return if self.empty_filter { Some(RowFilter::new(vec![])) } else { None };
        }
        let mut ps: Vec<Box<dyn ArrowPredicate>> = vec![];
        for p in &self.preds {
            let pm = match &p.by_roots {
                Some(r) => ProjectionMask::roots(d, r.clone()),
                None => ProjectionMask::leaves(d, (0..p.mask.len()).filter(|i| p.mask[*i])),
            };
            let kind = p.kind;
            ps.push(Box::new(ArrowPredicateFn::new(pm, move |batch: RecordBatch| {
                let cols = extract_batch(&batch);
                let n = batch.num_rows();
                let out: Vec<Option<bool>> = (0..n)
                    .map(|i| {
                        let row: Vec<&LValue> = cols.iter().map(|c| &c[i]).collect();
                        pred_eval(kind, &row)
                    })
                    .collect();
                Ok(BooleanArray::from(out))
            })));
        }
        Some(RowFilter::new(ps))
    }
    /// apply every option to a builder of any front-end
    pub fn apply<T>(&self, b: ArrowReaderBuilder<T>) -> ArrowReaderBuilder<T> {
        let d = b.metadata().file_metadata().schema_descr_ptr();
        let mut b = b.with_batch_size(self.batch_size).with_row_selection_policy(self.policy);
        if let Some(pm) = self.projection_mask(&d) {
            b = b.with_projection(pm);
        }
        if let Some(rg) = &self.row_groups {
            b = b.with_row_groups(rg.clone());
        }
        if let Some(s) = &self.sel {
            b = b.with_row_selection(s.build());
        }
        if let Some(flt) = self.filter(&d) {
            b = b.with_row_filter(flt);
        }
        if let Some(o) = self.offset {
            b = b.with_offset(o);
        }
        if let Some(l) = self.limit {
            b = b.with_limit(l);
        }
        if let Some(cs) = self.cache {
            b = b.with_max_predicate_cache_size(cs);
        }
        b
    }
    pub fn describe(&self) -> Value {
        json!({
            "proj": format!("{:?}", self.proj),
            "row_groups": self.row_groups,
            "selection": self.sel.as_ref().map(|s| json!({"pattern": s.pattern, "runs": format!("{:?}", runs_of(&s.pos).iter().take(24).collect::<Vec<_>>()),
                "nruns": s.nruns(), "build": format!("{:?}", s.build).chars().take(200).collect::<String>()})),
            "preds": self.preds.iter().map(|p| format!("{:?} on leaves {:?} roots {:?}", p.kind, (0..p.mask.len()).filter(|i| p.mask[*i]).collect::<Vec<_>>(), p.by_roots)).collect::<Vec<_>>(),
            "empty_filter": self.empty_filter,
            "offset": self.offset, "limit": self.limit, "batch_size": self.batch_size,
            "policy": format!("{:?}", self.policy), "ci": format!("{:?}", self.ci_policy), "oi": format!("{:?}", self.oi_policy),
            "cache": self.cache,
        })
    }
    pub fn classes(&self, f: &PqFile, c: &mut Case) {
        c.class(match &self.proj {
            ProjKind::All => "proj:all",
            ProjKind::Leaves(_) => "proj:leaves",
            ProjKind::Roots(_) => "proj:roots",
            ProjKind::Columns(_) => "proj:columns",
        });
        if self.row_groups.is_some() {
            c.class("rg:subset");
            if self.rgs(f).is_empty() {
                c.class("rg:empty-list");
            }
        }
        if let Some(s) = &self.sel {
            c.class(format!("sel:{}", s.pattern));
            c.class(match &s.build {
                SelBuild::Selectors(r) => {
                    if r.iter().any(|x| x.1 == 0) {
                        "selbuild:selectors+empty-runs"
                    } else {
                        "selbuild:selectors"
                    }
                }
                SelBuild::Mask(_) => "selbuild:mask",
                SelBuild::Filters(_) => "selbuild:from_filters",
                SelBuild::Ranges(_) => "selbuild:from_consecutive_ranges",
            });
        } else {
            c.class("sel:absent");
        }
        c.class(format!("preds={}", self.preds.len()));
        for p in &self.preds {
            c.class(match p.kind {
                PredKind::Mod { .. } => "pred:mod",
                PredKind::NotNull => "pred:not-null",
                PredKind::ListLen { .. } => "pred:list-len",
                PredKind::NullSome { .. } => "pred:returns-null",
                PredKind::True => "pred:true",
                PredKind::False => "pred:false",
            });
            if p.mask.iter().zip(&self.mask).all(|(p, o)| !*p || *o) {
                c.class("pred:cols-subset-of-output");
            }
        }
        if self.offset.is_some() {
            c.class("offset");
        }
        if self.limit.is_some() {
            c.class("limit");
        }
        c.class(match self.policy {
            RowSelectionPolicy::Selectors => "policy:selectors",
            RowSelectionPolicy::Mask => "policy:mask",
            RowSelectionPolicy::Auto { .. } => "policy:auto",
        });
        c.class(format!("oi-policy:{:?}", self.oi_policy));
        c.class(match self.batch_size {
            1 => "batch:1",
            2..=7 => "batch:2-7",
            x if x >= f.total => "batch:>=rows",
            _ => "batch:mid",
        });
    }
}

// =================================================================================================
// reference evaluator
// =================================================================================================

pub struct Expected {
    pub fields: Vec<Field>,
    pub rows: LBatch,
    pub nrows: usize,
    /// global row indexes that survive (for diagnostics)
    pub idx: Vec<usize>,
    /// number of rows entering / leaving each stage: chosen, after selection, after each predicate, after offset, after limit
    pub stages: Vec<usize>,
}

/// row groups -> selection -> predicates in sequence (each on survivors) -> offset -> limit -> projection
pub fn expected(f: &PqFile, cfg: &ReadCfg) -> Expected {
    let mut idx: Vec<usize> = vec![];
    for rg in cfg.rgs(f) {
        let s = f.rg_start(rg);
        idx.extend(s..s + f.rg_rows[rg]);
    }
    let mut stages = vec![idx.len()];
    if let Some(s) = &cfg.sel {
        idx = idx.into_iter().zip(&s.pos).filter(|(_, p)| **p).map(|(i, _)| i).collect();
    }
    stages.push(idx.len());
    let fields = f.ref_schema.fields();
    for p in &cfg.preds {
        let (_, pc) = project(fields, &f.reference, &p.mask);
        idx.retain(|&i| {
            let row: Vec<&LValue> = pc.iter().map(|c| &c[i]).collect();
            pred_eval(p.kind, &row) == Some(true)
        });
        stages.push(idx.len());
    }
    if let Some(o) = cfg.offset {
        idx = idx.into_iter().skip(o).collect();
    }
    stages.push(idx.len());
    if let Some(l) = cfg.limit {
        idx.truncate(l);
    }
    stages.push(idx.len());
    let (pf, pc) = project(fields, &f.reference, &cfg.mask);
    let rows: LBatch = pc.iter().map(|c| idx.iter().map(|&i| c[i].clone()).collect()).collect();
    Expected { fields: pf, rows, nrows: idx.len(), idx, stages }
}

// =================================================================================================
// front-ends
// =================================================================================================

pub struct Out {
    pub schema: Option<SchemaRef>,
    pub batch_schemas_differ: bool,
    pub rows: LBatch,
    pub nrows: usize,
    pub batch_rows: Vec<usize>,
}
impl Out {
    fn new(schema: Option<SchemaRef>) -> Self {
        Out { schema, batch_schemas_differ: false, rows: vec![], nrows: 0, batch_rows: vec![] }
    }
    fn push(&mut self, b: &RecordBatch) {
        match &self.schema {
            None => self.schema = Some(b.schema()),
            Some(s) => {
                if s.fields() != b.schema().fields() {
                    self.batch_schemas_differ = true;
                }
            }
        }
        let lb = extract_batch(b);
        if self.rows.is_empty() {
            self.rows = lb;
        } else {
            for (a, c) in self.rows.iter_mut().zip(lb) {
                a.extend(c);
            }
        }
        self.nrows += b.num_rows();
        self.batch_rows.push(b.num_rows());
    }
}

pub type ReadResult = Result<Out, String>;

fn drain(rdr: ParquetRecordBatchReader, out: &mut Out) -> Result<(), String> {
    use arrow_array::RecordBatchReader;
    let s = rdr.schema();
    match &out.schema {
        None => out.schema = Some(s),
        Some(o) => {
            if o.fields() != s.fields() {
                out.batch_schemas_differ = true;
            }
        }
    }
    for b in rdr {
        match b {
            Ok(b) => out.push(&b),
            Err(e) => return Err(format!("batch: {}", e)),
        }
    }
    Ok(())
}

/// synchronous reader; `premeta`: metadata loaded separately and passed with new_with_metadata
pub fn run_sync(f: &PqFile, cfg: &ReadCfg, premeta: bool) -> Result<ReadResult, Fail> {
    no_panic("sync", || -> ReadResult {
        let b = if premeta {
            let m = ArrowReaderMetadata::load(&f.bytes, cfg.options()).map_err(|e| format!("metadata: {}", e))?;
            ParquetRecordBatchReaderBuilder::new_with_metadata(f.bytes.clone(), m)
        } else {
            ParquetRecordBatchReaderBuilder::try_new_with_options(f.bytes.clone(), cfg.options()).map_err(|e| format!("builder: {}", e))?
        };
        let rdr = cfg.apply(b).build().map_err(|e| format!("build: {}", e))?;
        let mut out = Out::new(None);
        drain(rdr, &mut out)?;
        Ok(out)
    })
}

/// compare a front-end's output with the reference
pub fn check_against_expected(what: &str, out: &Out, exp: &Expected, eff_batch: usize) -> CaseResult {
    ensure!(out.nrows == exp.nrows, format!("{}:row-count", what), "returned {} rows, expected {} (stages {:?})", out.nrows, exp.nrows, exp.stages);
    if let Some(s) = &out.schema {
        let want = Fields::from(exp.fields.clone());
        ensure!(s.fields() == &want, format!("{}:schema", what), "schema {:?} expected {:?}", s.fields(), want);
    }
    ensure!(!out.batch_schemas_differ, format!("{}:batch-schema", what), "batches / reader disagree on the schema");
    if out.nrows > 0 || !out.rows.is_empty() {
        if let Some((ci, r)) = lbatch_diff(&out.rows, &exp.rows) {
            fail!(
                format!("{}:rows", what),
                "column {} row {} (file row {:?}): got {:?} expected {:?}",
                ci,
                r,
                exp.idx.get(r),
                out.rows.get(ci).and_then(|x| x.get(r)).map(|v| v.short()),
                exp.rows.get(ci).and_then(|x| x.get(r)).map(|v| v.short())
            );
        }
    }
    if let Some(m) = out.batch_rows.iter().max() {
        ensure!(*m <= eff_batch, format!("{}:batch-size", what), "a batch has {} rows, batch size {}", m, eff_batch);
    }
    Ok(())
}

/// compare two front-ends
pub fn check_same(what: &str, got: &ReadResult, want: &ReadResult, eff_batch: usize) -> CaseResult {
    match (got, want) {
        (Ok(g), Ok(w)) => {
            ensure!(g.nrows == w.nrows, format!("{}:row-count", what), "{} rows, sync reader {}", g.nrows, w.nrows);
            if let (Some(a), Some(b)) = (&g.schema, &w.schema) {
                ensure!(a.fields() == b.fields(), format!("{}:schema", what), "schema {:?} sync {:?}", a.fields(), b.fields());
            }
            ensure!(!g.batch_schemas_differ, format!("{}:batch-schema", what), "batches / reader disagree on the schema");
            if g.nrows > 0 {
                if let Some((ci, r)) = lbatch_diff(&g.rows, &w.rows) {
                    fail!(
                        format!("{}:rows", what),
                        "column {} row {}: got {:?} sync {:?}",
                        ci,
                        r,
                        g.rows.get(ci).and_then(|x| x.get(r)).map(|v| v.short()),
                        w.rows.get(ci).and_then(|x| x.get(r)).map(|v| v.short())
                    );
                }
            }
            if let Some(m) = g.batch_rows.iter().max() {
                ensure!(*m <= eff_batch, format!("{}:batch-size", what), "a batch has {} rows, batch size {}", m, eff_batch);
            }
            Ok(())
        }
        (Err(_), Err(_)) => Ok(()),
        (Ok(g), Err(e)) => fail!(format!("{}:ok-vs-sync-err", what), "returned {} rows but the sync reader failed: {}", g.nrows, e),
        (Err(e), Ok(w)) => fail!(format!("{}:err-vs-sync-ok", what), "failed ({}) but the sync reader returned {} rows", e, w.nrows),
    }
}

// ------------------------------------------------------------------------------------------------
// adversarial async reader + manual executor

/// far above what any generated file needs (<= 6 row groups x 4 phases x pages x leaves)
pub const MAX_IO_REQUESTS: usize = 50_000;

#[derive(Default)]
pub struct IoLog {
    pub requests: Vec<Range<u64>>,
    pub calls: usize,
    pub vectored_calls: usize,
    pub meta_calls: usize,
    pub pendings: usize,
    pub bad: Vec<String>,
    pub livelock: bool,
}

pub struct AdvReader {
    data: Bytes,
    pend: Vec<u8>,
    pos: usize,
    vectored: bool,
    log: Arc<Mutex<IoLog>>,
}

/// future that returns Pending `n` times (waking the task each time) before completing
fn pend_n(mut n: usize, log: Arc<Mutex<IoLog>>) -> impl Future<Output = ()> + Send {
    futures::future::poll_fn(move |cx| {
        if n == 0 {
            Poll::Ready(())
        } else {
            n -= 1;
            log.lock().unwrap().pendings += 1;
            cx.waker().wake_by_ref();
            Poll::Pending
        }
    })
}

impl AdvReader {
    pub fn new(data: Bytes, pend: Vec<u8>, vectored: bool) -> (Self, Arc<Mutex<IoLog>>) {
        let log = Arc::new(Mutex::new(IoLog::default()));
        (AdvReader { data, pend, pos: 0, vectored, log: log.clone() }, log)
    }
    fn next_pend(&mut self) -> usize {
        let v = if self.pend.is_empty() { 0 } else { self.pend[self.pos % self.pend.len()] };
        self.pos += 1;
        v as usize
    }
    fn slice(data: &Bytes, r: &Range<u64>, log: &Arc<Mutex<IoLog>>) -> parquet::errors::Result<Bytes> {
        let mut l = log.lock().unwrap();
        l.requests.push(r.clone());
        if l.requests.len() > MAX_IO_REQUESTS {
            // a reader that keeps asking forever (livelock inside one poll) must not hang the harness
            l.livelock = true;
            return Err(parquet::errors::ParquetError::General("harness: I/O request budget exhausted".to_string()));
        }
        if r.start >= r.end {
            l.bad.push(format!("empty or inverted range {:?}", r));
            return Ok(Bytes::new());
        }
        if r.end > data.len() as u64 {
            l.bad.push(format!("range {:?} outside the file of {} bytes", r, data.len()));
            return Err(parquet::errors::ParquetError::General(format!("range {:?} outside file", r)));
        }
        Ok(data.slice(r.start as usize..r.end as usize))
    }
}

impl AsyncFileReader for AdvReader {
    fn get_bytes(&mut self, range: Range<u64>) -> BoxFuture<'_, parquet::errors::Result<Bytes>> {
        let n = self.next_pend();
        let log = self.log.clone();
        let data = self.data.clone();
        log.lock().unwrap().calls += 1;
        async move {
            pend_n(n, log.clone()).await;
            Self::slice(&data, &range, &log)
        }
        .boxed()
    }
    fn get_byte_ranges(&mut self, ranges: Vec<Range<u64>>) -> BoxFuture<'_, parquet::errors::Result<Vec<Bytes>>> {
        if self.vectored {
            let n = self.next_pend();
            let n2 = self.next_pend() / 2;
            let log = self.log.clone();
            let data = self.data.clone();
            {
                let mut l = log.lock().unwrap();
                l.calls += 1;
                l.vectored_calls += 1;
            }
            async move {
                pend_n(n, log.clone()).await;
                let mut out = Vec::with_capacity(ranges.len());
                for (i, r) in ranges.iter().enumerate() {
                    if i == ranges.len() / 2 {
                        pend_n(n2, log.clone()).await;
                    }
                    out.push(Self::slice(&data, r, &log)?);
                }
                Ok(out)
            }
            .boxed()
        } else {
            // same as the trait's default implementation: sequential get_bytes
            async move {
                let mut out = Vec::with_capacity(ranges.len());
                for r in ranges {
                    out.push(self.get_bytes(r).await?);
                }
                Ok(out)
            }
            .boxed()
        }
    }
    fn get_metadata<'a>(&'a mut self, options: Option<&'a ArrowReaderOptions>) -> BoxFuture<'a, parquet::errors::Result<Arc<ParquetMetaData>>> {
        let n = self.next_pend();
        let log = self.log.clone();
        log.lock().unwrap().meta_calls += 1;
        async move {
            pend_n(n, log).await;
            let len = self.data.len() as u64;
            let m = ParquetMetaDataReader::new().with_arrow_reader_options(options).load_and_finish(&mut *self, len).await?;
            Ok(Arc::new(m))
        }
        .boxed()
    }
}

struct CountWake(AtomicUsize);
impl futures::task::ArcWake for CountWake {
    fn wake_by_ref(a: &Arc<Self>) {
        a.0.fetch_add(1, Ordering::SeqCst);
    }
}

pub struct Exec {
    wakes: Arc<CountWake>,
    pub polls: usize,
    pub pendings: usize,
}
impl Exec {
    pub fn new() -> Self {
        Exec { wakes: Arc::new(CountWake(AtomicUsize::new(0))), polls: 0, pendings: 0 }
    }
    /// poll to completion; every Pending must have been preceded by a wake-up during that poll
    pub fn run<T>(&mut self, what: &str, mut poll: impl FnMut(&mut Context<'_>) -> Poll<T>) -> Result<T, Fail> {
        let waker = futures::task::waker(self.wakes.clone());
        let mut cx = Context::from_waker(&waker);
        loop {
            let before = self.wakes.0.load(Ordering::SeqCst);
            self.polls += 1;
            ensure!(self.polls < 2_000_000, format!("{}:executor-stuck", what), "no completion after {} polls", self.polls);
            match poll(&mut cx) {
                Poll::Ready(v) => return Ok(v),
                Poll::Pending => {
                    self.pendings += 1;
                    let after = self.wakes.0.load(Ordering::SeqCst);
                    ensure!(after > before, format!("{}:pending-without-wake", what), "Pending returned but the waker was not notified (task would hang)");
                }
            }
        }
    }
}

#[derive(Clone, Debug)]
pub struct AsyncSched {
    pub pend: Vec<u8>,
    pub vectored: bool,
    pub premeta: bool,
    pub by_row_group: bool,
}
pub fn gen_async_sched(t: &mut Tape) -> AsyncSched {
    let n = 1 + t.below(12);
    let style = t.below(4);
    let pend: Vec<u8> = (0..n)
        .map(|_| match style {
            0 => 0,
            1 => t.below(3) as u8,
            _ => {
                if t.bool() {
                    0
                } else {
                    1 + t.below(5) as u8
                }
            }
        })
        .collect();
    AsyncSched { pend, vectored: t.bool(), premeta: t.bool(), by_row_group: t.bool() }
}

pub struct AsyncStats {
    pub io_pendings: usize,
    pub requests: usize,
}

pub fn run_async(f: &PqFile, cfg: &ReadCfg, s: &AsyncSched) -> Result<(ReadResult, AsyncStats), Fail> {
    let what = if s.by_row_group { "async-rg" } else { "async" };
    let (mut rdr, log) = AdvReader::new(f.bytes.clone(), s.pend.clone(), s.vectored);
    let mut ex = Exec::new();
    let file_len = f.bytes.len() as u64;
    let res: Result<ReadResult, Fail> = (|| {
        let builder = if s.premeta {
            let m = match ArrowReaderMetadata::load(&f.bytes, cfg.options()) {
                Ok(m) => m,
                Err(e) => return Ok(Err(format!("metadata: {}", e))),
            };
            ParquetRecordBatchStreamBuilder::new_with_metadata(rdr, m)
        } else {
            let opts = cfg.options();
            let m = {
                let fut = ArrowReaderMetadata::load_async(&mut rdr, opts);
                let mut fut = std::pin::pin!(fut);
                ex.run(what, |cx| fut.as_mut().poll(cx))?
            };
            match m {
                Ok(m) => ParquetRecordBatchStreamBuilder::new_with_metadata(rdr, m),
                Err(e) => return Ok(Err(format!("metadata: {}", e))),
            }
        };
        let mut stream = match no_panic(what, || cfg.apply(builder).build())? {
            Ok(s) => s,
            Err(e) => return Ok(Err(format!("build: {}", e))),
        };
        let mut out = Out::new(Some(stream.schema().clone()));
        if s.by_row_group {
            loop {
                let r = {
                    let fut = stream.next_row_group();
                    let mut fut = std::pin::pin!(fut);
                    no_panic(what, || ex.run(what, |cx| fut.as_mut().poll(cx)))??
                };
                match r {
                    Ok(Some(rd)) => {
                        if let Err(e) = no_panic(what, || drain(rd, &mut out))? {
                            return Ok(Err(e));
                        }
                    }
                    Ok(None) => break,
                    Err(e) => return Ok(Err(format!("next_row_group: {}", e))),
                }
            }
            // after the end: still None, no further I/O
            let before = log.lock().unwrap().calls;
            let r = {
                let fut = stream.next_row_group();
                let mut fut = std::pin::pin!(fut);
                ex.run(what, |cx| fut.as_mut().poll(cx))?
            };
            ensure!(matches!(r, Ok(None)), format!("{}:after-end", what), "next_row_group() after the end did not return Ok(None)");
            ensure!(log.lock().unwrap().calls == before, format!("{}:io-after-end", what), "I/O request after the stream ended");
        } else {
            loop {
                let r = no_panic(what, || ex.run(what, |cx| Pin::new(&mut stream).poll_next(cx)))??;
                match r {
                    Some(Ok(b)) => out.push(&b),
                    Some(Err(e)) => return Ok(Err(format!("poll_next: {}", e))),
                    None => break,
                }
            }
            let before = log.lock().unwrap().calls;
            let r = ex.run(what, |cx| Pin::new(&mut stream).poll_next(cx))?;
            ensure!(r.is_none(), format!("{}:after-end", what), "poll_next after the end returned an item");
            ensure!(log.lock().unwrap().calls == before, format!("{}:io-after-end", what), "I/O request after the stream ended");
        }
        Ok(Ok(out))
    })();
    let res = res?;
    let l = log.lock().unwrap();
    ensure!(!l.livelock, format!("{}:no-progress", what), "more than {} byte ranges requested: the stream keeps asking for data without making progress", MAX_IO_REQUESTS);
    ensure!(l.bad.is_empty(), format!("{}:bad-range", what), "{} (file length {})", l.bad.join("; "), file_len);
    Ok((res, AsyncStats { io_pendings: l.pendings, requests: l.requests.len() }))
}

// ------------------------------------------------------------------------------------------------
// push driver

#[derive(Clone, Copy, Debug, PartialEq)]
pub enum Deliver {
    /// one push_ranges call with everything requested
    AllAtOnce,
    /// one push_range call per range, then decode
    OnePerCall,
    /// supply only some of the requested ranges, then ask the decoder again
    Partial,
}

#[derive(Clone, Debug)]
pub struct PushSched {
    /// 0 nothing, 1 push_range(0..len) before the first decode, 2 PushBuffers given to the builder
    pub whole_file: u8,
    pub extra_early: bool,
    pub deliver: Deliver,
    pub reorder: bool,
    pub superset: u32,
    pub dup: u32,
    pub by_reader: bool,
    pub hold_readers: bool,
    pub rebuild: u32,
    pub premeta_decoder: bool,
}
pub fn gen_push_sched(t: &mut Tape) -> PushSched {
    PushSched {
        whole_file: if t.chance(40) { 1 + t.below(2) as u8 } else { 0 },
        extra_early: t.chance(90),
        deliver: *t.pick(&[Deliver::AllAtOnce, Deliver::OnePerCall, Deliver::Partial, Deliver::AllAtOnce]),
        reorder: t.bool(),
        superset: *t.pick(&[0u32, 64, 128, 255]),
        dup: *t.pick(&[0u32, 0, 64, 200]),
        by_reader: t.bool(),
        hold_readers: t.chance(100),
        rebuild: *t.pick(&[0u32, 0, 128, 255]),
        premeta_decoder: t.bool(),
    }
}

#[derive(Default)]
pub struct PushStats {
    pub rounds: usize,
    pub requested: usize,
    pub supersets: usize,
    pub reordered: usize,
    pub dups: usize,
    pub rebuilds: usize,
    pub extra: usize,
    pub no_request_at_all: bool,
}

fn covers(s: &Range<u64>, r: &Range<u64>) -> bool {
    s.start <= r.start && s.end >= r.end
}

pub fn run_push(c_tape: &mut Tape, f: &PqFile, cfg: &ReadCfg, s: &PushSched) -> Result<(ReadResult, PushStats), Fail> {
    let what = if s.by_reader { "push-reader" } else { "push" };
    let t = c_tape;
    let file_len = f.bytes.len() as u64;
    let mut st = PushStats::default();
    let meta = match no_panic(what, || ArrowReaderMetadata::load(&f.bytes, cfg.options()))? {
        Ok(m) => m,
        Err(e) => return Ok((Err(format!("metadata: {}", e)), st)),
    };
    let builder = if s.premeta_decoder {
        ParquetPushDecoderBuilder::new_with_metadata(meta.clone())
    } else {
        match ParquetPushDecoderBuilder::try_new_decoder_with_options(meta.metadata().clone(), cfg.options()) {
            Ok(b) => b,
            Err(e) => return Ok((Err(format!("builder: {}", e)), st)),
        }
    };
    let mut builder = cfg.apply(builder);
    if s.whole_file == 2 {
        let mut pb = PushBuffers::new(file_len);
        if let Err(e) = pb.push_range(0..file_len, f.bytes.clone()) {
            fail!(format!("{}:push-err", what), "PushBuffers::push_range(whole file): {}", e);
        }
        builder = builder.with_buffers(pb);
    }
    let mut dec: ParquetPushDecoder = match no_panic(what, || builder.build())? {
        Ok(d) => d,
        Err(e) => return Ok((Err(format!("build: {}", e)), st)),
    };
    if s.whole_file == 1 {
        if let Err(e) = dec.push_range(0..file_len, f.bytes.clone()) {
            fail!(format!("{}:push-err", what), "push_range(whole file): {}", e);
        }
    }
    let md = meta.metadata().clone();
    let push_extra = |t: &mut Tape, dec: &mut ParquetPushDecoder, st: &mut PushStats| -> CaseResult {
        // an unrequested range: some column chunk of some row group (needed later or never), or arbitrary bytes
        let r = if t.bool() && md.num_row_groups() > 0 {
            let rg = md.row_group(t.below(md.num_row_groups()));
            let (a, l) = rg.column(t.below(rg.num_columns())).byte_range();
            a..a + l
        } else {
            let a = t.below(file_len as usize) as u64;
            let l = 1 + t.below(((file_len - a) as usize).min(300)) as u64;
            a..(a + l).min(file_len)
        };
        st.extra += 1;
        if let Err(e) = dec.push_range(r.clone(), f.bytes.slice(r.start as usize..r.end as usize)) {
            fail!(format!("{}:push-err", what), "push_range({:?}) unrequested: {}", r, e);
        }
        Ok(())
    };
    if s.extra_early {
        push_extra(t, &mut dec, &mut st)?;
    }
    let nrg = cfg.rgs(f).len();
    let max_phases = nrg * (cfg.preds.len() + 1) + 2;
    let mut phases = 0usize;
    let mut out = Out::new(None);
    let mut held: Vec<ParquetRecordBatchReader> = vec![];
    let mut prev_req: Option<Vec<Range<u64>>> = None;
    let mut supplied: Vec<Range<u64>> = vec![];
    let mut steps = 0usize;
    enum Step {
        Need(Vec<Range<u64>>),
        Batch(RecordBatch),
        Reader(ParquetRecordBatchReader),
        Done,
    }
    loop {
        steps += 1;
        ensure!(steps < 200_000, format!("{}:no-termination", what), "decoder did not finish after {} calls", steps);
        // optional reconfiguration at a row group boundary: into_builder + build with unchanged options
        if s.rebuild > 0 && dec.is_at_row_group_boundary() && t.chance(s.rebuild) {
            let b = match no_panic(what, || dec.into_builder())? {
                Ok(b) => b,
                Err(e) => fail!(format!("{}:into_builder-err", what), "into_builder() at a row group boundary failed: {}", e),
            };
            dec = match no_panic(what, || b.build())? {
                Ok(d) => d,
                Err(e) => fail!(format!("{}:rebuild-err", what), "build() after into_builder() failed: {}", e),
            };
            st.rebuilds += 1;
        }
        let step = if s.by_reader {
            match no_panic(what, || dec.try_next_reader())? {
                Ok(DecodeResult::NeedsData(r)) => Step::Need(r),
                Ok(DecodeResult::Data(r)) => Step::Reader(r),
                Ok(DecodeResult::Finished) => Step::Done,
                Err(e) => return Ok((Err(format!("try_next_reader: {}", e)), st)),
            }
        } else {
            match no_panic(what, || dec.try_decode())? {
                Ok(DecodeResult::NeedsData(r)) => Step::Need(r),
                Ok(DecodeResult::Data(b)) => Step::Batch(b),
                Ok(DecodeResult::Finished) => Step::Done,
                Err(e) => return Ok((Err(format!("try_decode: {}", e)), st)),
            }
        };
        match step {
            Step::Need(ranges) => {
                st.rounds += 1;
                st.requested += ranges.len();
                ensure!(!ranges.is_empty(), format!("{}:empty-request", what), "NeedsData with no ranges");
                for r in &ranges {
                    ensure!(r.start < r.end, format!("{}:bad-range", what), "requested empty range {:?}", r);
                    ensure!(r.end <= file_len, format!("{}:bad-range", what), "requested {:?} outside the file of {} bytes", r, file_len);
                    if s.whole_file != 0 {
                        // not a violation by itself (the decoder may release data), only reported
                    }
                    if prev_req.is_some() {
                        if let Some(sup) = supplied.iter().find(|x| covers(x, r)) {
                            fail!(
                                format!("{}:no-progress", what),
                                "range {:?} requested again although {:?} was supplied since the previous request",
                                r,
                                sup
                            );
                        }
                    }
                }
                let continuation = prev_req.as_ref().map(|p| ranges.iter().all(|r| p.contains(r))).unwrap_or(false);
                if !continuation {
                    phases += 1;
                    ensure!(
                        phases <= max_phases,
                        format!("{}:too-many-rounds", what),
                        "{} request rounds for {} row groups and {} predicates",
                        phases,
                        nrg,
                        cfg.preds.len()
                    );
                }
                supplied.clear();
                // delivery
                let mut order: Vec<usize> = if s.reorder { t.perm(ranges.len()) } else { (0..ranges.len()).collect() };
                if s.reorder && order.iter().enumerate().any(|(i, x)| i != *x) {
                    st.reordered += 1;
                }
                if s.deliver == Deliver::Partial && order.len() > 1 {
                    let k = 1 + t.below(order.len() - 1);
                    order.truncate(k);
                }
                let mut rs: Vec<Range<u64>> = vec![];
                for i in order {
                    let r = &ranges[i];
                    let sup = if t.chance(s.superset) {
                        st.supersets += 1;
                        if t.chance(24) {
                            0..file_len
                        } else {
                            let a = r.start - (t.below(65) as u64).min(r.start);
                            let b = (r.end + t.below(65) as u64).min(file_len);
                            a..b
                        }
                    } else {
                        r.clone()
                    };
                    if t.chance(s.dup) {
                        st.dups += 1;
                        rs.push(sup.clone());
                    }
                    rs.push(sup);
                }
                let bufs: Vec<Bytes> = rs.iter().map(|r| f.bytes.slice(r.start as usize..r.end as usize)).collect();
                supplied.extend(rs.iter().cloned());
                if s.deliver == Deliver::AllAtOnce {
                    if let Err(e) = no_panic(what, || dec.push_ranges(rs.clone(), bufs))? {
                        fail!(format!("{}:push-err", what), "push_ranges({:?}): {}", rs, e);
                    }
                } else {
                    for (r, b) in rs.iter().zip(bufs) {
                        if let Err(e) = no_panic(what, || dec.push_range(r.clone(), b))? {
                            fail!(format!("{}:push-err", what), "push_range({:?}): {}", r, e);
                        }
                    }
                }
                if s.extra_early && t.chance(40) {
                    push_extra(t, &mut dec, &mut st)?;
                }
                prev_req = Some(ranges);
            }
            Step::Batch(b) => {
                prev_req = None;
                supplied.clear();
                out.push(&b);
            }
            Step::Reader(r) => {
                prev_req = None;
                supplied.clear();
                if s.hold_readers {
                    held.push(r);
                } else if let Err(e) = no_panic(what, || drain(r, &mut out))? {
                    return Ok((Err(e), st));
                }
            }
            Step::Done => break,
        }
    }
    for r in held {
        if let Err(e) = no_panic(what, || drain(r, &mut out))? {
            return Ok((Err(e), st));
        }
    }
    // after Finished: stays finished, asks for nothing
    let again_ok = if s.by_reader {
        matches!(no_panic(what, || dec.try_next_reader())?, Ok(DecodeResult::Finished))
    } else {
        matches!(no_panic(what, || dec.try_decode())?, Ok(DecodeResult::Finished))
    };
    ensure!(again_ok, format!("{}:after-finished", what), "decoder did not report Finished again after Finished");
    st.no_request_at_all = st.rounds == 0;
    Ok((Ok(out), st))
}
