//! C17 hand-made Avro leg: object container files produced by this file's own Avro binary encoder (zig-zag
//! varints, arrays/maps split into several blocks, negative block counts with byte sizes, several/empty file blocks),
//! decoded by arrow-avro and — as a check of the encoder itself — by apache-avro. Expected values known by construction.
use super::g::*;
use super::io::*;
use super::*;
use apache_avro::types::Value as AV;

fn zz(out: &mut Vec<u8>, v: i64) {
    let mut n = ((v << 1) ^ (v >> 63)) as u64;
    loop {
        let b = (n & 0x7f) as u8;
        n >>= 7;
        if n == 0 {
            out.push(b);
            break;
        }
        out.push(b | 0x80);
    }
}
fn put_bytes(out: &mut Vec<u8>, b: &[u8]) {
    zz(out, b.len() as i64);
    out.extend_from_slice(b);
}

/// Avro array/map body: items (already encoded) split into blocks; a block is `count items..` or `-count bytesize items..`
fn blocks(t: &mut Tape, out: &mut Vec<u8>, items: &[Vec<u8>], stats: &mut (usize, usize)) {
    let mut i = 0;
    while i < items.len() {
        let n = 1 + t.below((items.len() - i).min(3));
        let body: Vec<u8> = items[i..i + n].concat();
        if t.chance(100) {
            zz(out, -(n as i64));
            zz(out, body.len() as i64);
            stats.0 += 1;
        } else {
            zz(out, n as i64);
        }
        out.extend_from_slice(&body);
        if i > 0 {
            stats.1 += 1;
        }
        i += n;
    }
    zz(out, 0);
}

const SCHEMA: &str = r#"{"type":"record","name":"r","fields":[{"name":"a","type":"long"},{"name":"s","type":["null","string"]},{"name":"xs","type":{"type":"array","items":["null","int"]}},{"name":"m","type":{"type":"map","values":"long"}},{"name":"d","type":["double","null"]}]}"#;

pub fn sub_avro_handmade(c: &mut Case) -> CaseResult {
    let rows = gen_rows(&mut c.tape).min(40);
    let mut stats = (0usize, 0usize); // negative-count blocks, multi-block collections
    let mut cols: LBatch = vec![vec![]; 5];
    let mut recs: Vec<Vec<u8>> = vec![];
    let mut want_apache: Vec<AV> = vec![];
    for _ in 0..rows {
        let t = &mut c.tape;
        let mut r = vec![];
        let a = gen_int_in(t, i64::MIN as i128, i64::MAX as i128) as i64;
        zz(&mut r, a);
        let s = if t.chance(60) { None } else { Some(nasty_string(t, &[], 8)) };
        match &s {
            None => zz(&mut r, 0),
            Some(x) => {
                zz(&mut r, 1);
                put_bytes(&mut r, x.as_bytes());
            }
        }
        let xs: Vec<Option<i32>> = (0..t.below(6)).map(|_| if t.chance(60) { None } else { Some(gen_int_in(t, i32::MIN as i128, i32::MAX as i128) as i32) }).collect();
        let items: Vec<Vec<u8>> = xs
            .iter()
            .map(|x| {
                let mut b = vec![];
                match x {
                    None => zz(&mut b, 0),
                    Some(v) => {
                        zz(&mut b, 1);
                        zz(&mut b, *v as i64);
                    }
                }
                b
            })
            .collect();
        blocks(t, &mut r, &items, &mut stats);
        let mut m: Vec<(String, i64)> = vec![];
        for _ in 0..t.below(5) {
            let k = nasty_string(t, &[], 5);
            if !m.iter().any(|e| e.0 == k) {
                m.push((k, gen_int_in(t, i64::MIN as i128, i64::MAX as i128) as i64));
            }
        }
        let items: Vec<Vec<u8>> = m
            .iter()
            .map(|(k, v)| {
                let mut b = vec![];
                put_bytes(&mut b, k.as_bytes());
                zz(&mut b, *v);
                b
            })
            .collect();
        blocks(t, &mut r, &items, &mut stats);
        let d = if t.chance(60) { None } else { Some(gen_f64_bits(t, true)) };
        match d {
            None => zz(&mut r, 1),
            Some(b) => {
                zz(&mut r, 0);
                r.extend_from_slice(&b.to_le_bytes());
            }
        }
        recs.push(r);
        cols[0].push(LValue::Int(a as i128));
        cols[1].push(s.clone().map(LValue::Str).unwrap_or(LValue::Null));
        cols[2].push(LValue::List(xs.iter().map(|x| x.map(|v| LValue::Int(v as i128)).unwrap_or(LValue::Null)).collect()));
        cols[3].push(LValue::Map(m.iter().map(|(k, v)| (LValue::Str(k.clone()), LValue::Int(*v as i128))).collect()));
        cols[4].push(d.map(LValue::F64).unwrap_or(LValue::Null));
        want_apache.push(AV::Record(vec![
            ("a".into(), AV::Long(a)),
            ("s".into(), match &s {
                None => AV::Union(0, Box::new(AV::Null)),
                Some(x) => AV::Union(1, Box::new(AV::String(x.clone()))),
            }),
            ("xs".into(), AV::Array(xs.iter().map(|x| match x {
                None => AV::Union(0, Box::new(AV::Null)),
                Some(v) => AV::Union(1, Box::new(AV::Int(*v))),
            }).collect())),
            ("m".into(), AV::Map(m.iter().map(|(k, v)| (k.clone(), AV::Long(*v))).collect())),
            ("d".into(), match d {
                None => AV::Union(1, Box::new(AV::Null)),
                Some(b) => AV::Union(0, Box::new(AV::Double(f64::from_bits(b)))),
            }),
        ]));
    }
    // container
    let mut f: Vec<u8> = b"Obj\x01".to_vec();
    let meta: Vec<Vec<u8>> = {
        let mut a = vec![];
        put_bytes(&mut a, b"avro.schema");
        put_bytes(&mut a, SCHEMA.as_bytes());
        let mut b = vec![];
        put_bytes(&mut b, b"avro.codec");
        put_bytes(&mut b, b"null");
        let mut x = vec![a, b];
        if c.tape.chance(80) {
            let mut u = vec![];
            put_bytes(&mut u, b"user.note");
            put_bytes(&mut u, &[0u8, 255, 1]);
            x.push(u);
        }
        x
    };
    let mut hstats = (0, 0);
    blocks(&mut c.tape, &mut f, &meta, &mut hstats);
    let sync: [u8; 16] = c.tape.bytes(16).try_into().unwrap();
    f.extend_from_slice(&sync);
    let mut i = 0;
    let mut file_blocks = 0;
    let mut empty_blocks = 0;
    while i < recs.len() {
        if c.tape.chance(30) {
            // a file block holding zero objects
            zz(&mut f, 0);
            zz(&mut f, 0);
            f.extend_from_slice(&sync);
            empty_blocks += 1;
        }
        let n = 1 + c.tape.below((recs.len() - i).min(7));
        let body: Vec<u8> = recs[i..i + n].concat();
        zz(&mut f, n as i64);
        zz(&mut f, body.len() as i64);
        f.extend_from_slice(&body);
        f.extend_from_slice(&sync);
        file_blocks += 1;
        i += n;
    }
    let bs = batch_size_for(&mut c.tape, rows);
    if stats.0 > 0 {
        c.class("negative-block-count");
    }
    if stats.1 > 0 {
        c.class("multi-block-collection");
    }
    if hstats.0 > 0 || hstats.1 > 0 {
        c.class("header-map-blocked");
    }
    if file_blocks > 1 {
        c.class("multi-file-block");
    }
    if empty_blocks > 0 {
        c.class("empty-file-block");
    }
    c.describe(json!({"rows": rows, "file_blocks": file_blocks, "empty_blocks": empty_blocks, "negative_count_blocks": stats.0, "header_blocks": format!("{:?}", hstats), "batch_size": bs,
        "cols": cols.iter().map(|x| short_vec(x)).collect::<Vec<_>>()}));
    if rows > 0 && (stats.0 > 0 || stats.1 > 0) {
        c.nontrivial();
    }
    // the encoder is checked against apache-avro first (empty file blocks end apache-avro's iteration early, and its
    // header parser is not the subject: only files without those shapes are shown to it)
    if empty_blocks == 0 && hstats == (0, 0) {
        match apache_avro::Reader::new(&f[..]) {
            Ok(rd) => {
                let got: Vec<AV> = rd.filter_map(|x| x.ok()).collect();
                ensure!(got.len() == want_apache.len() && got.iter().zip(&want_apache).all(|(a, b)| avro_eq(a, b)), "harness:handmade-encoder", "apache-avro reads the hand-made file differently: {} records (expected {})", got.len(), want_apache.len());
                c.class("apache-confirmed");
            }
            Err(e) => fail!("harness:handmade-encoder", "apache-avro cannot open the hand-made file: {}", e),
        }
    }
    let (s, out) = match no_panic("avro_handmade:read", || avro_read_ocf(&f, &AvroOpts::default(), bs))? {
        Ok(x) => x,
        Err(e) if e.starts_with(HANG) => fail!("avro_handmade:hang", "{} on a hand-made OCF file ({} bytes)", e, f.len()),
        Err(e) => fail!("avro_handmade:rejected", "arrow-avro rejects a valid hand-made OCF file ({} bytes): {}", f.len(), e),
    };
    let fields = vec![
        LField::new("a", LType::Int { bits: 64, signed: true }, false),
        LField::new("s", LType::Utf8(Enc::O32), true),
        LField::new("xs", LType::List(Box::new(LField::new("item", LType::Int { bits: 32, signed: true }, true)), ListEnc::O32), false),
        LField::new("m", LType::Map { key: Box::new(LField::new("key", LType::Utf8(Enc::O32), false)), val: Box::new(LField::new("value", LType::Int { bits: 64, signed: true }, false)), sorted: false }, false),
        LField::new("d", LType::F64, true),
    ];
    for (g, w) in s.fields().iter().zip(&fields) {
        ensure!(LType::from_arrow(g.data_type()).as_ref() == Some(&w.ty) && g.name() == &w.name && g.is_nullable() == w.nullable, "avro_handmade:type", "column {} read as {} (nullable {}) expected {}", w.name, g.data_type(), g.is_nullable(), w.ty.arrow());
    }
    let got = collect(&s, &out).1;
    if let Some(m) = first_mismatch(&fields, &got, &cols) {
        fail!("avro_handmade:value", "{}", m);
    }
    c.evals(1);
    Ok(())
}
