//! C17 helper layer: thin wrappers around the CSV / JSON / Avro writers and readers of arrow-rs (options as data).
use arrow_array::RecordBatch;
use arrow_schema::{Schema, SchemaRef};
use std::io::Cursor;
use vp_engine::batch::*;

// ------------------------------------------------------------------------------------------------ CSV
#[derive(Clone, Debug)]
pub enum CsvTerm {
    Lf,
    Crlf,
    Cr,
    Any(u8),
}
#[derive(Clone, Copy, Debug, PartialEq)]
pub enum CsvQuoteStyle {
    Necessary,
    Always,
    NonNumeric,
    Never,
}
#[derive(Clone, Debug)]
pub struct CsvOpts {
    pub delimiter: u8,
    pub quote: u8,
    pub escape: u8,
    pub double_quote: bool,
    pub style: CsvQuoteStyle,
    pub header: bool,
    pub validate_header: bool,
    pub term: CsvTerm,
    /// reader told the terminator explicitly (only possible for single-byte terminators)
    pub reader_term_explicit: bool,
    pub null: Option<String>,
    /// reader is given `^<null>$` even when null is None/"" (otherwise the default `^$` behaviour is used)
    pub null_regex_explicit: bool,
    pub date_format: Option<String>,
    pub datetime_format: Option<String>,
    pub timestamp_format: Option<String>,
    pub timestamp_tz_format: Option<String>,
    pub time_format: Option<String>,
}
impl Default for CsvOpts {
    fn default() -> Self {
        CsvOpts {
            delimiter: b',',
            quote: b'"',
            escape: b'\\',
            double_quote: true,
            style: CsvQuoteStyle::Necessary,
            header: true,
            validate_header: false,
            term: CsvTerm::Lf,
            reader_term_explicit: false,
            null: None,
            null_regex_explicit: false,
            date_format: None,
            datetime_format: None,
            timestamp_format: None,
            timestamp_tz_format: None,
            time_format: None,
        }
    }
}
impl CsvOpts {
    pub fn is_default(&self) -> bool {
        self.delimiter == b','
            && self.quote == b'"'
            && self.double_quote
            && self.style == CsvQuoteStyle::Necessary
            && self.header
            && matches!(self.term, CsvTerm::Lf)
            && self.null.is_none()
            && self.date_format.is_none()
            && self.datetime_format.is_none()
            && self.timestamp_format.is_none()
            && self.timestamp_tz_format.is_none()
            && self.time_format.is_none()
    }
    pub fn json(&self) -> serde_json::Value {
        serde_json::json!({
            "delimiter": (self.delimiter as char).to_string(), "quote": (self.quote as char).to_string(), "escape": (self.escape as char).to_string(),
            "double_quote": self.double_quote, "style": format!("{:?}", self.style), "header": self.header, "validate_header": self.validate_header,
            "term": format!("{:?}", self.term), "reader_term_explicit": self.reader_term_explicit, "null": self.null, "null_regex_explicit": self.null_regex_explicit,
            "date_format": self.date_format, "datetime_format": self.datetime_format, "timestamp_format": self.timestamp_format,
            "timestamp_tz_format": self.timestamp_tz_format, "time_format": self.time_format,
        })
    }
}

pub fn csv_write(batches: &[RecordBatch], o: &CsvOpts) -> Result<Vec<u8>, String> {
    use arrow_csv::writer::{Terminator, WriterBuilder};
    let mut b = WriterBuilder::new()
        .with_delimiter(o.delimiter)
        .with_quote(o.quote)
        .with_escape(o.escape)
        .with_double_quote(o.double_quote)
        .with_header(o.header)
        .with_quote_style(match o.style {
            CsvQuoteStyle::Necessary => arrow_csv::QuoteStyle::Necessary,
            CsvQuoteStyle::Always => arrow_csv::QuoteStyle::Always,
            CsvQuoteStyle::NonNumeric => arrow_csv::QuoteStyle::NonNumeric,
            CsvQuoteStyle::Never => arrow_csv::QuoteStyle::Never,
        })
        .with_line_terminator(match o.term {
            CsvTerm::Lf => Terminator::Any(b'\n'),
            CsvTerm::Crlf => Terminator::CRLF,
            CsvTerm::Cr => Terminator::Any(b'\r'),
            CsvTerm::Any(x) => Terminator::Any(x),
        });
    if let Some(n) = &o.null {
        b = b.with_null(n.clone());
    }
    if let Some(f) = &o.date_format {
        b = b.with_date_format(f.clone());
    }
    if let Some(f) = &o.datetime_format {
        b = b.with_datetime_format(f.clone());
    }
    if let Some(f) = &o.timestamp_format {
        b = b.with_timestamp_format(f.clone());
    }
    if let Some(f) = &o.timestamp_tz_format {
        b = b.with_timestamp_tz_format(f.clone());
    }
    if let Some(f) = &o.time_format {
        b = b.with_time_format(f.clone());
    }
    let mut w = b.build(Vec::<u8>::new());
    for x in batches {
        w.write(x).map_err(|e| e.to_string())?;
    }
    Ok(w.into_inner())
}

pub fn csv_reader_builder(schema: SchemaRef, o: &CsvOpts, batch_size: usize) -> Result<arrow_csv::ReaderBuilder, String> {
    let mut b = arrow_csv::ReaderBuilder::new(schema).with_header(o.header).with_batch_size(batch_size);
    if o.validate_header {
        b = b.with_header_validation(true);
    }
    if o.delimiter != b',' {
        b = b.with_delimiter(o.delimiter);
    }
    if o.quote != b'"' {
        b = b.with_quote(o.quote);
    }
    if !o.double_quote {
        b = b.with_escape(o.escape);
    }
    match o.term {
        CsvTerm::Lf if o.reader_term_explicit => b = b.with_terminator(b'\n'),
        CsvTerm::Cr if o.reader_term_explicit => b = b.with_terminator(b'\r'),
        CsvTerm::Any(x) => b = b.with_terminator(x),
        _ => {}
    }
    let n = o.null.clone().unwrap_or_default();
    if !n.is_empty() || o.null_regex_explicit {
        let re = regex::Regex::new(&format!("^{}$", regex::escape(&n))).map_err(|e| e.to_string())?;
        b = b.with_null_regex(re);
    }
    Ok(b)
}

pub fn csv_read(bytes: &[u8], schema: SchemaRef, o: &CsvOpts, batch_size: usize) -> Result<Vec<RecordBatch>, String> {
    let b = csv_reader_builder(schema, o, batch_size)?;
    let r = b.build(Cursor::new(bytes.to_vec())).map_err(|e| e.to_string())?;
    let mut out = vec![];
    for x in r {
        out.push(x.map_err(|e| e.to_string())?);
    }
    Ok(out)
}

// ------------------------------------------------------------------------------------------------ JSON
#[derive(Clone, Debug)]
pub struct JsonOpts {
    pub array: bool,
    pub explicit_nulls: bool,
    pub list_mode: bool,
    pub strict: bool,
    pub date_format: Option<String>,
    pub datetime_format: Option<String>,
    pub timestamp_format: Option<String>,
    pub timestamp_tz_format: Option<String>,
    pub time_format: Option<String>,
}
impl Default for JsonOpts {
    fn default() -> Self {
        JsonOpts { array: false, explicit_nulls: false, list_mode: false, strict: false, date_format: None, datetime_format: None, timestamp_format: None, timestamp_tz_format: None, time_format: None }
    }
}
impl JsonOpts {
    pub fn json(&self) -> serde_json::Value {
        serde_json::json!({"array": self.array, "explicit_nulls": self.explicit_nulls, "list_mode": self.list_mode, "strict": self.strict,
            "date_format": self.date_format, "datetime_format": self.datetime_format, "timestamp_format": self.timestamp_format,
            "timestamp_tz_format": self.timestamp_tz_format, "time_format": self.time_format})
    }
}

pub fn json_write(batches: &[RecordBatch], o: &JsonOpts) -> Result<Vec<u8>, String> {
    use arrow_json::writer::{JsonArray, LineDelimited, WriterBuilder};
    let mut b = WriterBuilder::new().with_explicit_nulls(o.explicit_nulls).with_struct_mode(if o.list_mode { arrow_json::StructMode::ListOnly } else { arrow_json::StructMode::ObjectOnly });
    if let Some(f) = &o.date_format {
        b = b.with_date_format(f.clone());
    }
    if let Some(f) = &o.datetime_format {
        b = b.with_datetime_format(f.clone());
    }
    if let Some(f) = &o.timestamp_format {
        b = b.with_timestamp_format(f.clone());
    }
    if let Some(f) = &o.timestamp_tz_format {
        b = b.with_timestamp_tz_format(f.clone());
    }
    if let Some(f) = &o.time_format {
        b = b.with_time_format(f.clone());
    }
    if o.array {
        let mut w = b.build::<_, JsonArray>(Vec::<u8>::new());
        for x in batches {
            w.write(x).map_err(|e| e.to_string())?;
        }
        w.finish().map_err(|e| e.to_string())?;
        Ok(w.into_inner())
    } else {
        let mut w = b.build::<_, LineDelimited>(Vec::<u8>::new());
        for x in batches {
            w.write(x).map_err(|e| e.to_string())?;
        }
        w.finish().map_err(|e| e.to_string())?;
        Ok(w.into_inner())
    }
}

pub fn json_read(bytes: &[u8], schema: SchemaRef, o: &JsonOpts, batch_size: usize) -> Result<Vec<RecordBatch>, String> {
    let b = arrow_json::ReaderBuilder::new(schema)
        .with_batch_size(batch_size)
        .with_strict_mode(o.strict)
        .with_flatten(o.array)
        .with_struct_mode(if o.list_mode { arrow_json::StructMode::ListOnly } else { arrow_json::StructMode::ObjectOnly });
    let r = b.build(Cursor::new(bytes.to_vec())).map_err(|e| e.to_string())?;
    let mut out = vec![];
    for x in r {
        out.push(x.map_err(|e| e.to_string())?);
    }
    Ok(out)
}

// ------------------------------------------------------------------------------------------------ Avro
#[derive(Clone, Copy, Debug, PartialEq)]
pub enum AvroCodec {
    None,
    Deflate,
    Snappy,
    Zstd,
    Bzip2,
    Xz,
}
#[derive(Clone, Copy, Debug, PartialEq)]
pub enum AvroFraming {
    Ocf,
    SoeRabin,
    Confluent(u32),
    Apicurio(u64),
}
#[derive(Clone, Debug)]
pub struct AvroOpts {
    pub codec: AvroCodec,
    pub utf8view: bool,
    pub framing: AvroFraming,
    pub capacity: usize,
    pub strict: bool,
}
impl Default for AvroOpts {
    fn default() -> Self {
        AvroOpts { codec: AvroCodec::None, utf8view: false, framing: AvroFraming::Ocf, capacity: 1024, strict: false }
    }
}
impl AvroOpts {
    pub fn json(&self) -> serde_json::Value {
        serde_json::json!({"codec": format!("{:?}", self.codec), "utf8view": self.utf8view, "framing": format!("{:?}", self.framing), "capacity": self.capacity, "strict": self.strict})
    }
}

fn avro_codec(c: AvroCodec) -> Option<arrow_avro::compression::CompressionCodec> {
    use arrow_avro::compression::CompressionCodec as C;
    match c {
        AvroCodec::None => None,
        AvroCodec::Deflate => Some(C::Deflate),
        AvroCodec::Snappy => Some(C::Snappy),
        AvroCodec::Zstd => Some(C::ZStandard),
        AvroCodec::Bzip2 => Some(C::Bzip2),
        AvroCodec::Xz => Some(C::Xz),
    }
}

/// OCF file written by arrow-avro; `schema` may carry an `avro.schema` metadata entry (used verbatim by the writer)
pub fn avro_write_ocf(schema: &Schema, batches: &[RecordBatch], o: &AvroOpts) -> Result<Vec<u8>, String> {
    use arrow_avro::writer::format::AvroOcfFormat;
    use arrow_avro::writer::WriterBuilder;
    let mut w = WriterBuilder::new(schema.clone()).with_compression(avro_codec(o.codec)).with_capacity(o.capacity).build::<_, AvroOcfFormat>(Vec::<u8>::new()).map_err(|e| e.to_string())?;
    for b in batches {
        w.write(b).map_err(|e| e.to_string())?;
    }
    w.finish().map_err(|e| e.to_string())?;
    Ok(w.into_inner())
}

static OCF_HANGS: std::sync::atomic::AtomicUsize = std::sync::atomic::AtomicUsize::new(0);
pub const HANG: &str = "HANG: arrow-avro OCF Reader did not return";

/// OCF read with a watchdog: the reader is known to spin forever on some inputs (finding F17); a spinning reader
/// thread is abandoned (it keeps burning a core until the process exits) and reported as `Err(HANG..)`
pub fn avro_read_ocf(bytes: &[u8], o: &AvroOpts, batch_size: usize) -> Result<(SchemaRef, Vec<RecordBatch>), String> {
    let (tx, rx) = std::sync::mpsc::channel();
    let b = bytes.to_vec();
    let o2 = o.clone();
    std::thread::spawn(move || {
        let r = vp_engine::runner::catch(|| avro_read_ocf_inner(&b, &o2, batch_size));
        let _ = tx.send(r.map_err(|p| format!("PANIC at {}: {}", p.loc, p.msg)));
    });
    let secs = if OCF_HANGS.load(std::sync::atomic::Ordering::Relaxed) == 0 { 30 } else { 10 };
    match rx.recv_timeout(std::time::Duration::from_secs(secs)) {
        Ok(Ok(r)) => r,
        Ok(Err(p)) => panic!("{}", p),
        Err(_) => {
            OCF_HANGS.fetch_add(1, std::sync::atomic::Ordering::Relaxed);
            Err(format!("{} within {} s ({} bytes)", HANG, secs, bytes.len()))
        }
    }
}

pub fn avro_read_ocf_inner(bytes: &[u8], o: &AvroOpts, batch_size: usize) -> Result<(SchemaRef, Vec<RecordBatch>), String> {
    let r = arrow_avro::reader::ReaderBuilder::new().with_batch_size(batch_size).with_utf8_view(o.utf8view).with_strict_mode(o.strict).build(Cursor::new(bytes.to_vec())).map_err(|e| e.to_string())?;
    let schema = r.schema();
    let mut out = vec![];
    for x in r {
        out.push(x.map_err(|e| e.to_string())?);
    }
    Ok((schema, out))
}

fn strategy(f: AvroFraming) -> arrow_avro::schema::FingerprintStrategy {
    use arrow_avro::schema::FingerprintStrategy as S;
    match f {
        AvroFraming::Ocf | AvroFraming::SoeRabin => S::Rabin,
        AvroFraming::Confluent(id) => S::Id(id),
        AvroFraming::Apicurio(id) => S::Id64(id),
    }
}

/// stream of framed single-object messages written by `AvroStreamWriter`
pub fn avro_write_stream(schema: &Schema, batches: &[RecordBatch], o: &AvroOpts) -> Result<Vec<u8>, String> {
    use arrow_avro::writer::format::AvroSoeFormat;
    use arrow_avro::writer::WriterBuilder;
    let mut w = WriterBuilder::new(schema.clone()).with_fingerprint_strategy(strategy(o.framing)).with_capacity(o.capacity).build::<_, AvroSoeFormat>(Vec::<u8>::new()).map_err(|e| e.to_string())?;
    for b in batches {
        w.write(b).map_err(|e| e.to_string())?;
    }
    w.finish().map_err(|e| e.to_string())?;
    Ok(w.into_inner())
}

/// per-row framed messages produced by the row `Encoder`
pub fn avro_encode_rows(schema: &Schema, batches: &[RecordBatch], o: &AvroOpts) -> Result<Vec<Vec<u8>>, String> {
    use arrow_avro::writer::format::AvroSoeFormat;
    use arrow_avro::writer::WriterBuilder;
    let mut e = WriterBuilder::new(schema.clone()).with_fingerprint_strategy(strategy(o.framing)).with_capacity(o.capacity).build_encoder::<AvroSoeFormat>().map_err(|e| e.to_string())?;
    let mut out = vec![];
    for b in batches {
        e.encode(b).map_err(|e| e.to_string())?;
        let rows = e.flush();
        out.extend(rows.iter().map(|r| r.to_vec()));
    }
    Ok(out)
}

/// the Avro schema JSON the writer uses for `schema` (metadata entry wins, else converted)
pub fn avro_schema_json(schema: &Schema) -> Result<String, String> {
    if let Some(j) = schema.metadata().get(arrow_avro::schema::SCHEMA_METADATA_KEY) {
        return Ok(j.clone());
    }
    arrow_avro::schema::AvroSchema::try_from(schema).map(|s| s.json_string).map_err(|e| e.to_string())
}

/// decode framed messages with the push decoder; `chunks` = how the byte stream is fed (sizes), empty = all at once
pub fn avro_read_stream(avro_json: &str, bytes: &[u8], o: &AvroOpts, batch_size: usize, chunks: &[usize]) -> Result<(SchemaRef, Vec<RecordBatch>), String> {
    avro_read_stream_fp(avro_json, bytes, o, batch_size, chunks, None)
}

pub fn arrow_rabin(avro_json: &str) -> Result<u64, String> {
    use arrow_avro::schema::{AvroSchema, Fingerprint, FingerprintAlgorithm};
    match AvroSchema::new(avro_json.to_string()).fingerprint(FingerprintAlgorithm::Rabin).map_err(|e| e.to_string())? {
        Fingerprint::Rabin(x) => Ok(x),
        f => Err(format!("unexpected fingerprint {:?}", f)),
    }
}

/// `rabin`: register the schema under this fingerprint instead of the one arrow-avro computes
pub fn avro_read_stream_fp(avro_json: &str, bytes: &[u8], o: &AvroOpts, batch_size: usize, chunks: &[usize], rabin: Option<u64>) -> Result<(SchemaRef, Vec<RecordBatch>), String> {
    use arrow_avro::schema::{AvroSchema, Fingerprint, FingerprintAlgorithm, SchemaStore};
    let avro = AvroSchema::new(avro_json.to_string());
    let store = match o.framing {
        AvroFraming::Ocf | AvroFraming::SoeRabin => {
            let mut s = SchemaStore::new();
            match rabin {
                Some(fp) => {
                    s.set(Fingerprint::Rabin(fp), avro).map_err(|e| e.to_string())?;
                }
                None => {
                    s.register(avro).map_err(|e| e.to_string())?;
                }
            }
            s
        }
        AvroFraming::Confluent(id) => {
            let mut s = SchemaStore::new_with_type(FingerprintAlgorithm::Id);
            s.set(Fingerprint::Id(id), avro).map_err(|e| e.to_string())?;
            s
        }
        AvroFraming::Apicurio(id) => {
            let mut s = SchemaStore::new_with_type(FingerprintAlgorithm::Id64);
            s.set(Fingerprint::Id64(id), avro).map_err(|e| e.to_string())?;
            s
        }
    };
    let mut d = arrow_avro::reader::ReaderBuilder::new()
        .with_batch_size(batch_size)
        .with_utf8_view(o.utf8view)
        .with_strict_mode(o.strict)
        .with_writer_schema_store(store)
        .build_decoder()
        .map_err(|e| e.to_string())?;
    let schema = d.schema();
    let mut out = vec![];
    // rolling buffer: bytes not yet consumed by the decoder are presented again together with the next chunk
    let mut pending: Vec<u8> = vec![];
    let mut pos = 0usize;
    let mut ci = 0usize;
    loop {
        let take = if chunks.is_empty() { bytes.len() - pos } else { chunks[ci % chunks.len()].max(1).min(bytes.len() - pos) };
        ci += 1;
        pending.extend_from_slice(&bytes[pos..pos + take]);
        pos += take;
        loop {
            let n = d.decode(&pending).map_err(|e| e.to_string())?;
            pending.drain(..n);
            if d.batch_is_full() {
                if let Some(b) = d.flush().map_err(|e| e.to_string())? {
                    out.push(b);
                }
                if pending.is_empty() {
                    break;
                }
                continue;
            }
            break;
        }
        if pos >= bytes.len() {
            break;
        }
    }
    if let Some(b) = d.flush().map_err(|e| e.to_string())? {
        out.push(b);
    }
    if !pending.is_empty() {
        return Err(format!("decoder left {} bytes unconsumed at end of stream", pending.len()));
    }
    Ok((schema, out))
}

/// concatenate the logical content of several batches (schema-checked by the caller)
pub fn collect(schema: &SchemaRef, batches: &[RecordBatch]) -> (SchemaRef, LBatch) {
    let mut acc: LBatch = vec![vec![]; schema.fields().len()];
    for b in batches {
        let l = extract_batch(b);
        for (a, c) in acc.iter_mut().zip(l) {
            a.extend(c);
        }
    }
    (schema.clone(), acc)
}
