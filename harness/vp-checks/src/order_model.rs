//! Shared by C10 and C11: the model total order on logical values under `SortOptions`, support grids written
//! from the documentation of arrow-ord / arrow-row (committed as data, not probed), and value generators aimed at
//! ordering edge cases (shared prefixes, block boundaries, duplicates, nulls at every level).
#![allow(dead_code)]
use arrow_schema::SortOptions;
use std::cmp::Ordering;
use vp_engine::model::*;
use vp_engine::r#gen::*;
use vp_engine::tape::Tape;

pub const ALL_OPTS: [SortOptions; 4] = [
    SortOptions { descending: false, nulls_first: true },
    SortOptions { descending: false, nulls_first: false },
    SortOptions { descending: true, nulls_first: true },
    SortOptions { descending: true, nulls_first: false },
];

pub fn opts_name(o: SortOptions) -> String {
    format!("{}{}", if o.descending { "desc" } else { "asc" }, if o.nulls_first { "-nf" } else { "-nl" })
}

/// arrow-cmp `child_opts`: children are compared ascending with nulls placed so that, after the parent's reversal
/// for `descending`, they still end up where `nulls_first` says.
pub fn child_opts(o: SortOptions) -> SortOptions {
    SortOptions { descending: false, nulls_first: o.nulls_first != o.descending }
}

/// How a union slot is ordered.
#[derive(Clone, Copy, PartialEq, Eq, Debug)]
pub enum UnionOrder {
    /// arrow-cmp `compare_union`: a slot whose selected child slot is (logically) null is a null of the union
    /// (`UnionArray::logical_nulls`), placed by `nulls_first` whatever its type id; other slots by type id, then by
    /// the child value under `child_opts`; everything reversed when descending.
    Comparator,
    /// arrow-row documentation ("Union Encoding"/"Union Ordering"): no union-level null (nulls are represented by the
    /// child encoding), values of different types by type id, values of the same type by the order of that type
    /// (children under `child_opts`); the whole column order reversed when descending.
    RowFormat,
}

/// logical null as `Array::logical_nulls` reports it (a union slot is null when its selected child slot is)
pub fn is_lnull(v: &LValue, um: UnionOrder) -> bool {
    match v {
        LValue::Null => true,
        LValue::Union(_, b) if um == UnionOrder::Comparator => is_lnull(b, um),
        _ => false,
    }
}

fn as_big(v: &LValue) -> [u8; 32] {
    match v {
        LValue::Big(b) => *b,
        LValue::Int(i) => big_from_i128(*i),
        _ => panic!("model: not a decimal256 value: {:?}", v),
    }
}

/// The model order: nulls by `nulls_first`; values by natural order / IEEE totalOrder on bit patterns / unsigned
/// lexicographic bytes / element-wise then length for lists and maps / field-wise for structs, children under
/// `child_opts`; reversed when descending.
pub fn model_cmp(ty: &LType, a: &LValue, b: &LValue, o: SortOptions, um: UnionOrder) -> Ordering {
    let ty = ty.denoted();
    if matches!(ty, LType::Null) {
        return Ordering::Equal;
    }
    match (is_lnull(a, um), is_lnull(b, um)) {
        (true, true) => return Ordering::Equal,
        (true, false) => return if o.nulls_first { Ordering::Less } else { Ordering::Greater },
        (false, true) => return if o.nulls_first { Ordering::Greater } else { Ordering::Less },
        _ => {}
    }
    let c = child_opts(o);
    let list_cmp = |f: &LField, x: &[LValue], y: &[LValue]| -> Ordering {
        for (p, q) in x.iter().zip(y) {
            match model_cmp(&f.ty, p, q, c, um) {
                Ordering::Equal => {}
                r => return r,
            }
        }
        x.len().cmp(&y.len())
    };
    let r = match (ty, a, b) {
        (_, LValue::Bool(x), LValue::Bool(y)) => x.cmp(y),
        (_, LValue::Int(x), LValue::Int(y)) => x.cmp(y),
        (_, LValue::Big(_) | LValue::Int(_), LValue::Big(_) | LValue::Int(_)) => big_cmp(&as_big(a), &as_big(b)),
        (_, LValue::F16(x), LValue::F16(y)) => total_cmp_bits(*x as u64, *y as u64, 16),
        (_, LValue::F32(x), LValue::F32(y)) => total_cmp_bits(*x as u64, *y as u64, 32),
        (_, LValue::F64(x), LValue::F64(y)) => total_cmp_bits(*x, *y, 64),
        (_, LValue::DayTime(d1, m1), LValue::DayTime(d2, m2)) => (d1, m1).cmp(&(d2, m2)),
        (_, LValue::MonthDayNano(m1, d1, n1), LValue::MonthDayNano(m2, d2, n2)) => (m1, d1, n1).cmp(&(m2, d2, n2)),
        (_, LValue::Str(x), LValue::Str(y)) => x.as_bytes().cmp(y.as_bytes()),
        (_, LValue::Bytes(x), LValue::Bytes(y)) => x.as_slice().cmp(y.as_slice()),
        (LType::List(f, _) | LType::FixedList(f, _), LValue::List(x), LValue::List(y)) => list_cmp(f, x, y),
        (LType::Struct(fs), LValue::Struct(x), LValue::Struct(y)) => {
            let mut r = Ordering::Equal;
            for ((f, p), q) in fs.iter().zip(x).zip(y) {
                r = model_cmp(&f.ty, p, q, c, um);
                if r != Ordering::Equal {
                    break;
                }
            }
            r
        }
        (LType::Map { key, val, .. }, LValue::Map(x), LValue::Map(y)) => {
            let mut r = Ordering::Equal;
            for ((k1, v1), (k2, v2)) in x.iter().zip(y) {
                r = model_cmp(&key.ty, k1, k2, c, um);
                if r == Ordering::Equal {
                    r = model_cmp(&val.ty, v1, v2, c, um);
                }
                if r != Ordering::Equal {
                    break;
                }
            }
            if r == Ordering::Equal { x.len().cmp(&y.len()) } else { r }
        }
        (LType::Union { fields, .. }, LValue::Union(i1, v1), LValue::Union(i2, v2)) => {
            if i1 != i2 {
                i1.cmp(i2)
            } else {
                let f = &fields.iter().find(|x| x.0 == *i1).expect("union id").1;
                model_cmp(&f.ty, v1, v2, c, um)
            }
        }
        _ => panic!("model_cmp: value does not fit type {:?}: {:?} / {:?}", ty, a, b),
    };
    if o.descending { r.reverse() } else { r }
}

/// tuple order: first column that differs decides
pub fn model_cmp_tuple(tys: &[&LType], a: &[&LValue], b: &[&LValue], opts: &[SortOptions], um: UnionOrder) -> Ordering {
    for k in 0..tys.len() {
        match model_cmp(tys[k], a[k], b[k], opts[k], um) {
            Ordering::Equal => {}
            r => return r,
        }
    }
    Ordering::Equal
}

pub fn has_union(ty: &LType) -> bool {
    ty.any(&|t| matches!(t, LType::Union { .. }))
}

// ------------------------------------------------------------------------------------------------
// Support grids (from the documentation / `can_rank`, `can_sort_to_indices`, `supports_distinct`, `supports_datatype`)

pub fn is_primitive(ty: &LType) -> bool {
    use LType::*;
    matches!(
        ty,
        Int { .. } | F16 | F32 | F64 | Decimal { .. } | Date32 | Date64 | Time32(_) | Time64(_) | Timestamp(..) | Duration(_) | IntervalYM | IntervalDT | IntervalMDN
    )
}
/// `rank`: primitives, Boolean, Utf8/LargeUtf8/Utf8View, Binary/LargeBinary/BinaryView
pub fn rankable(ty: &LType) -> bool {
    is_primitive(ty) || matches!(ty, LType::Bool | LType::Utf8(_) | LType::Binary(_))
}
/// `sort_to_indices`/`sort`/`sort_limit`: rankable types, FixedSizeBinary, (Large)List/(Large)ListView/FixedSizeList and
/// Dictionary of rankable values, RunEndEncoded of sortable values
pub fn sortable(ty: &LType) -> bool {
    use LType::*;
    rankable(ty)
        || match ty {
            FixedBinary(_) => true,
            List(f, _) | FixedList(f, _) => rankable(&f.ty),
            Dict { value, .. } => rankable(value),
            Ree { value, .. } => sortable(&value.ty),
            _ => false,
        }
}
/// flat value types of the comparison kernels (`cmp.rs`): primitives, Boolean, strings/binaries/views, FixedSizeBinary, Null
pub fn cmp_leaf(ty: &LType) -> bool {
    is_primitive(ty) || matches!(ty, LType::Bool | LType::Utf8(_) | LType::Binary(_) | LType::FixedBinary(_) | LType::Null)
}
/// comparison kernels accept a leaf, optionally under one Dictionary and/or one RunEndEncoded wrapper
pub fn cmp_kernel_ok(ty: &LType) -> bool {
    match ty {
        LType::Ree { value, .. } => match &value.ty {
            LType::Dict { value, .. } => cmp_leaf(value),
            t => cmp_leaf(t),
        },
        LType::Dict { value, .. } => cmp_leaf(value),
        t => cmp_leaf(t),
    }
}
/// `RowConverter::supports_fields`: every non-nested type (incl. Dictionary / RunEndEncoded of non-nested values) and
/// List/LargeList/ListView/LargeListView/FixedSizeList/Map/Struct/Union/RunEndEncoded of supported types; a Dictionary
/// of a nested value type is not supported.
pub fn row_supported(ty: &LType) -> bool {
    use LType::*;
    match ty {
        List(f, _) | FixedList(f, _) => row_supported(&f.ty),
        // the map's entries field is a struct: supported iff key and value are
        Map { key, val, .. } => row_supported(&key.ty) && row_supported(&val.ty),
        Struct(fs) => fs.iter().all(|f| row_supported(&f.ty)),
        Union { fields, .. } => fields.iter().all(|f| row_supported(&f.1.ty)),
        Ree { value, .. } => row_supported(&value.ty),
        Dict { value, .. } => !value.is_nested(),
        _ => true,
    }
}
/// type returned by `convert_rows`: dictionaries come back as their value type at every level (documented,
/// "Flattening Dictionaries"); everything else keeps its type (run-end arrays are re-encoded as run-end arrays).
pub fn row_out_type(ty: &LType) -> LType {
    use LType::*;
    let f = |x: &LField| LField { name: x.name.clone(), ty: row_out_type(&x.ty), nullable: x.nullable };
    match ty {
        Dict { value, .. } => row_out_type(value),
        List(c, e) => List(Box::new(f(c)), *e),
        FixedList(c, n) => FixedList(Box::new(f(c)), *n),
        Struct(fs) => Struct(fs.iter().map(f).collect()),
        Map { key, val, sorted } => Map { key: Box::new(f(key)), val: Box::new(f(val)), sorted: *sorted },
        Union { dense, fields } => Union { dense: *dense, fields: fields.iter().map(|(i, x)| (*i, f(x))).collect() },
        Ree { rbits, value } => Ree { rbits: *rbits, value: Box::new(f(value)) },
        t => t.clone(),
    }
}

// ------------------------------------------------------------------------------------------------
// Generators

pub fn vcfg() -> ValCfg {
    ValCfg { max_str: 40, max_list: 4, ..ValCfg::default() }
}

const BYTE_ALPHABET: [u8; 8] = [0x00, 0xff, 0x01, 0x61, 0x62, 0x7f, 0x80, 0xfe];
const STR_ALPHABET: [&str; 10] = ["a", "b", "\u{0}", "\u{7f}", "é", "中", "😀", "A", "z", "\u{1}"];

/// lengths around the inline-view (12/13), sort-prefix (4) and row-format block edges (8·k, 32·k)
pub const EDGE_LENS: [usize; 30] = [0, 1, 3, 4, 5, 7, 8, 9, 11, 12, 13, 15, 16, 17, 23, 24, 25, 31, 32, 33, 34, 40, 63, 64, 65, 66, 96, 97, 128, 129];

pub fn gen_edge_bytes(t: &mut Tape, n: usize) -> Vec<u8> {
    match t.below(4) {
        0 => vec![*t.pick(&BYTE_ALPHABET); n],
        _ => (0..n).map(|_| *t.pick(&BYTE_ALPHABET)).collect(),
    }
}
pub fn gen_edge_string(t: &mut Tape, n_bytes: usize) -> String {
    // byte length exactly n_bytes where possible (ascii incl. NUL and 0x7f; multi-byte chars when they fit)
    let mut s = String::new();
    while s.len() < n_bytes {
        let ch = *t.pick(&STR_ALPHABET);
        if s.len() + ch.len() <= n_bytes { s.push_str(ch) } else { s.push('a') }
    }
    s
}

fn str_variant(t: &mut Tape, s: &str) -> String {
    let chars: Vec<char> = s.chars().collect();
    let mut out: Vec<char> = chars.clone();
    match t.below(7) {
        0 if !out.is_empty() => {
            out.pop();
        }
        1 => out.push(*t.pick(&['\u{0}', 'a', '\u{7f}', '中'])),
        2 if !out.is_empty() => {
            let l = out.len() - 1;
            out[l] = if out[l] == 'b' { 'c' } else { 'b' };
        }
        3 if out.len() > 4 => {
            // differ after the 4-byte prefix
            let p = 4 + t.below(out.len() - 4);
            out[p] = if out[p] == 'a' { '\u{0}' } else { 'a' };
        }
        4 => {
            // pad to an edge length
            let target = *t.pick(&[12usize, 13, 8, 9, 32, 33, 4, 5]);
            while out.iter().map(|c| c.len_utf8()).sum::<usize>() < target {
                out.push('a');
            }
        }
        5 if !out.is_empty() => {
            let k = 1 + t.below(out.len().min(3));
            out.truncate(out.len() - k);
        }
        _ => out.push('\u{0}'),
    }
    out.into_iter().collect()
}
fn bytes_variant(t: &mut Tape, b: &[u8]) -> Vec<u8> {
    let mut out = b.to_vec();
    match t.below(7) {
        0 if !out.is_empty() => {
            out.pop();
        }
        1 => out.push(*t.pick(&[0x00u8, 0xff, 0x61])),
        2 if !out.is_empty() => {
            let l = out.len() - 1;
            out[l] = out[l].wrapping_add(1);
        }
        3 if out.len() > 4 => {
            let p = 4 + t.below(out.len() - 4);
            out[p] ^= 0xff;
        }
        4 => {
            let target = *t.pick(&[12usize, 13, 8, 9, 32, 33, 4, 5]);
            let fill = *t.pick(&[0x00u8, 0xff, 0x61]);
            while out.len() < target {
                out.push(fill);
            }
        }
        5 if !out.is_empty() => {
            let k = 1 + t.below(out.len().min(3));
            out.truncate(out.len() - k);
        }
        _ => out.push(0xff),
    }
    out
}

/// a value of `ty` close to `v` in the order (shares a prefix / differs deep inside / differs only in length)
pub fn mutate(t: &mut Tape, ty: &LType, v: &LValue, vc: &ValCfg) -> LValue {
    use LType::*;
    let ty = ty.denoted();
    let child = |t: &mut Tape, f: &LField, x: &LValue| -> LValue {
        if x.is_null() {
            gen_nonnull(t, &f.ty, vc)
        } else if f.nullable && !matches!(f.ty, Union { .. }) && t.chance(48) {
            LValue::Null
        } else {
            mutate(t, &f.ty, x, vc)
        }
    };
    match (ty, v) {
        (Utf8(_), LValue::Str(s)) => LValue::Str(str_variant(t, s)),
        (Binary(_), LValue::Bytes(b)) => LValue::Bytes(bytes_variant(t, b)),
        (FixedBinary(n), LValue::Bytes(b)) if *n > 0 => {
            let mut o = b.clone();
            let p = t.below(o.len());
            o[p] = o[p].wrapping_add(if t.bool() { 1 } else { 0x80 });
            LValue::Bytes(o)
        }
        (F64, LValue::F64(b)) => LValue::F64(match t.below(3) {
            0 => b ^ (1 << 63),
            1 => b.wrapping_add(1),
            _ => b.wrapping_sub(1),
        }),
        (F32, LValue::F32(b)) => LValue::F32(match t.below(3) {
            0 => b ^ (1 << 31),
            1 => b.wrapping_add(1),
            _ => b.wrapping_sub(1),
        }),
        (F16, LValue::F16(b)) => LValue::F16(match t.below(3) {
            0 => b ^ (1 << 15),
            1 => b.wrapping_add(1),
            _ => b.wrapping_sub(1),
        }),
        (Int { bits, signed }, LValue::Int(x)) => {
            let (lo, hi) = int_range(*bits, *signed);
            LValue::Int((x + if t.bool() { 1 } else { -1 }).clamp(lo, hi))
        }
        (List(f, _), LValue::List(items)) => {
            let mut o = items.clone();
            match t.below(4) {
                0 if !o.is_empty() => {
                    o.pop();
                }
                1 => o.push(gen_value(t, &f.ty, f.nullable, vc)),
                _ if !o.is_empty() => {
                    let k = if t.bool() { o.len() - 1 } else { t.below(o.len()) };
                    o[k] = child(t, f, &items[k]);
                }
                _ => o.push(gen_value(t, &f.ty, f.nullable, vc)),
            }
            LValue::List(o)
        }
        (FixedList(f, n), LValue::List(items)) if *n > 0 => {
            let mut o = items.clone();
            let k = if t.bool() { o.len() - 1 } else { t.below(o.len()) };
            o[k] = child(t, f, &items[k]);
            LValue::List(o)
        }
        (Struct(fs), LValue::Struct(vals)) if !fs.is_empty() => {
            let mut o = vals.clone();
            let k = if t.bool() { o.len() - 1 } else { t.below(o.len()) };
            o[k] = child(t, &fs[k], &vals[k]);
            LValue::Struct(o)
        }
        (Map { key, val, .. }, LValue::Map(es)) => {
            let mut o = es.clone();
            match t.below(4) {
                0 if !o.is_empty() => {
                    o.pop();
                }
                1 => o.push((gen_nonnull(t, &key.ty, vc), gen_value(t, &val.ty, val.nullable, vc))),
                _ if !o.is_empty() => {
                    let k = t.below(o.len());
                    if t.bool() {
                        o[k].1 = child(t, val, &es[k].1);
                    } else {
                        o[k].0 = mutate(t, &key.ty, &es[k].0, vc);
                    }
                }
                _ => o.push((gen_nonnull(t, &key.ty, vc), gen_value(t, &val.ty, val.nullable, vc))),
            }
            LValue::Map(o)
        }
        (Union { fields, .. }, LValue::Union(id, inner)) => {
            if t.chance(64) {
                gen_nonnull(t, ty, vc)
            } else {
                let f = &fields.iter().find(|x| x.0 == *id).expect("union id").1;
                LValue::Union(*id, Box::new(child(t, f, inner)))
            }
        }
        _ => gen_nonnull(t, ty, vc),
    }
}

/// a fresh non-null value, variable-length leaves biased to the edge lengths
pub fn gen_ord_value(t: &mut Tape, ty: &LType, vc: &ValCfg) -> LValue {
    match ty.denoted() {
        LType::Utf8(_) if t.chance(96) => {
            let n = *t.pick(&EDGE_LENS);
            LValue::Str(gen_edge_string(t, n.min(vc.max_str.max(13))))
        }
        LType::Binary(_) if t.chance(96) => {
            let n = *t.pick(&EDGE_LENS);
            LValue::Bytes(gen_edge_bytes(t, n.min(vc.max_str.max(13))))
        }
        _ => gen_nonnull(t, ty, vc),
    }
}

/// A column for ordering checks: a small pool of values plus near variants (so duplicates, shared prefixes and
/// deep differences are frequent), fresh values, and a null pattern.
pub fn gen_ord_column(t: &mut Tape, ty: &LType, nullable: bool, len: usize, vc: &ValCfg) -> Vec<LValue> {
    if matches!(ty, LType::Null) {
        return vec![LValue::Null; len];
    }
    let can_null = nullable && !matches!(ty, LType::Union { .. });
    let pat = if !can_null { 0 } else { t.below(8) };
    let small_keys = ty.any(&|x| matches!(x, LType::Dict { kbits: 8, .. }));
    let k = 1 + t.below(4);
    let mut pool: Vec<LValue> = (0..k).map(|_| gen_ord_value(t, ty, vc)).collect();
    let nv = t.below(5);
    for _ in 0..nv {
        let b = pool[t.below(pool.len())].clone();
        let m = mutate(t, ty, &b, vc);
        pool.push(m);
    }
    let fresh_chance = if small_keys { 0 } else { *t.pick(&[0u32, 40, 100, 200]) };
    let mut out = Vec::with_capacity(len);
    for _ in 0..len {
        let null = match pat {
            0 => false,
            1 => true,
            2 | 3 => t.chance(20),
            _ => t.chance(70),
        };
        if null {
            out.push(LValue::Null);
        } else if t.chance(fresh_chance) {
            out.push(gen_ord_value(t, ty, vc));
        } else {
            out.push(pool[t.below(pool.len())].clone());
        }
    }
    out
}

pub fn count_distinct(col: &[LValue]) -> (usize, usize, bool) {
    // (#nulls, #distinct non-null, has duplicate non-null)
    let mut seen: Vec<&LValue> = vec![];
    let mut dup = false;
    let mut nulls = 0;
    for v in col {
        if v.is_null() {
            nulls += 1;
        } else if seen.contains(&v) {
            dup = true;
        } else {
            seen.push(v);
        }
    }
    (nulls, seen.len(), dup)
}

pub fn float_special(col: &[LValue]) -> bool {
    col.iter().any(|v| match v {
        LValue::F64(b) => f64::from_bits(*b).is_nan() || (*b << 1) == 0,
        LValue::F32(b) => f32::from_bits(*b).is_nan() || (*b << 1) == 0,
        LValue::F16(b) => ((*b & 0x7c00) == 0x7c00 && (*b & 0x3ff) != 0) || (*b << 1) == 0,
        _ => false,
    })
}

pub fn sort_opts_of(t: &mut Tape) -> SortOptions {
    ALL_OPTS[t.below(4)]
}

// ------------------------------------------------------------------------------------------------
// Known-finding shapes avoided by construction (disabled in strict/replay mode by the callers)

/// `UnionArray::logical_nulls` of a *dense* union with a *single* field whose type id is not 0 reports no nulls
/// (arrow-array union_array.rs: `gather_nulls(vec![(0, logical_nulls)])` hard-codes type id 0), so the comparator,
/// which asks `logical_nulls`, does not see the nulls of such a column. Rewrites the id to 0; returns true if rewritten.
pub fn avoid_single_dense_union(ty: &mut LType) -> bool {
    use LType::*;
    let mut hit = false;
    match ty {
        List(f, _) | FixedList(f, _) => hit |= avoid_single_dense_union(&mut f.ty),
        Struct(fs) => {
            for f in fs.iter_mut() {
                hit |= avoid_single_dense_union(&mut f.ty);
            }
        }
        Map { key, val, .. } => {
            hit |= avoid_single_dense_union(&mut key.ty);
            hit |= avoid_single_dense_union(&mut val.ty);
        }
        Union { dense, fields } => {
            for f in fields.iter_mut() {
                hit |= avoid_single_dense_union(&mut f.1.ty);
            }
            if *dense && fields.len() == 1 && fields[0].0 != 0 {
                fields[0].0 = 0;
                hit = true;
            }
        }
        Dict { value, .. } => hit |= avoid_single_dense_union(value),
        Ree { value, .. } => hit |= avoid_single_dense_union(&mut value.ty),
        _ => {}
    }
    hit
}

/// truncate every string / byte value (at any depth) to at most `max` bytes (on a char boundary): byte-view arrays
/// whose values all fit inline have no data buffers when built plainly, which selects the inline-key fast paths
pub fn shorten(v: &mut LValue, max: usize) {
    match v {
        LValue::Str(s) => {
            while s.len() > max {
                s.pop();
            }
        }
        LValue::Bytes(b) => b.truncate(max),
        LValue::List(xs) | LValue::Struct(xs) => xs.iter_mut().for_each(|x| shorten(x, max)),
        LValue::Map(es) => es.iter_mut().for_each(|(k, x)| {
            shorten(k, max);
            shorten(x, max)
        }),
        LValue::Union(_, b) => shorten(b, max),
        _ => {}
    }
}
pub fn has_view(ty: &LType) -> bool {
    ty.any(&|t| matches!(t, LType::Utf8(Enc::View) | LType::Binary(Enc::View)))
}
/// for types containing byte views: half of the time make every value inline-sized and ask for a plain layout
pub fn inline_views(t: &mut Tape, ty: &LType, col: &mut [LValue]) -> bool {
    if has_view(ty) && !ty.any(&|t| matches!(t, LType::FixedBinary(_))) && t.bool() {
        let max = *t.pick(&[12usize, 12, 4, 8]);
        col.iter_mut().for_each(|v| shorten(v, max));
        true
    } else {
        false
    }
}
