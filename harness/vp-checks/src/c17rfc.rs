//! C17 RFC legs: documents rendered by this file's own RFC 8259 / RFC 4180 renderers (c17gen.rs); the expected
//! parse is known by construction.
use super::g::*;
use super::*;
use std::io::Cursor;

// ------------------------------------------------------------------------------------------------ (d) json_rfc8259
const RFC_NAMES: [&str; 8] = ["a", "b", "k\"q", "é", "\\", "sp ace", "😀", "n\nl"];

fn gen_rfc_type(t: &mut Tape, depth: u32) -> LType {
    let leaf = |t: &mut Tape| match t.below(10) {
        0 => LType::Bool,
        1 | 2 => gen_int_type(t, true),
        3 => LType::F32,
        4 | 5 => LType::F64,
        _ => LType::Utf8(*t.pick(&[Enc::O32, Enc::O32, Enc::O64, Enc::View])),
    };
    if depth >= 3 {
        return leaf(t);
    }
    match t.below(12) {
        0..=6 => leaf(t),
        7 | 8 => LType::List(Box::new(gen_rfc_field(t, depth + 1, "item")), *t.pick(&[ListEnc::O32, ListEnc::O64])),
        9 | 10 => {
            let n = 1 + t.below(3);
            let p = t.perm(RFC_NAMES.len());
            LType::Struct((0..n).map(|i| gen_rfc_field(t, depth + 1, RFC_NAMES[p[i]])).collect())
        }
        _ => LType::Map { key: Box::new(LField::new("key", LType::Utf8(Enc::O32), false)), val: Box::new(gen_rfc_field(t, depth + 1, "value")), sorted: false },
    }
}
fn gen_rfc_field(t: &mut Tape, depth: u32, name: &str) -> LField {
    LField { name: name.to_string(), ty: gen_rfc_type(t, depth), nullable: !t.chance(70) }
}

struct Stats {
    exponent: bool,
    junk_depth: usize,
}

fn junk(t: &mut Tape, depth: usize, st: &mut Stats) -> J {
    match t.below(if depth > 3 { 5 } else { 9 }) {
        0 => J::Null,
        1 => J::Bool(t.bool()),
        2 => J::Num(spell_float(t)),
        3 => J::Str(nasty_string(t, &[], 6)),
        4 => J::Num(format!("{}", t.u32())),
        5 | 6 => J::Arr((0..t.below(3)).map(|_| junk(t, depth + 1, st)).collect()),
        7 => {
            // deep nesting
            let d = *t.pick(&[8usize, 64, 30]);
            st.junk_depth = st.junk_depth.max(d);
            let mut j = J::Num("1".into());
            for i in 0..d {
                j = if i % 2 == 0 { J::Arr(vec![j]) } else { J::Obj(vec![("d".into(), j)]) };
            }
            j
        }
        _ => J::Obj((0..t.below(3)).map(|i| (format!("j{}", i), junk(t, depth + 1, st))).collect()),
    }
}

fn gen_rfc_value(t: &mut Tape, ty: &LType, nullable: bool, strict: bool, st: &mut Stats) -> (LValue, J) {
    if nullable && t.chance(40) {
        return (LValue::Null, J::Null);
    }
    match ty {
        LType::Bool => {
            let b = t.bool();
            (LValue::Bool(b), J::Bool(b))
        }
        LType::Int { bits, signed } => {
            let (lo, hi) = int_range(*bits, *signed);
            let v = gen_int_in(t, lo, hi);
            let s = spell_int(t, v);
            if s.contains(['e', 'E']) {
                st.exponent = true;
            }
            (LValue::Int(v), J::Num(s))
        }
        LType::F64 | LType::F32 => {
            let s = if t.chance(60) {
                let iv = gen_int_in(t, -(1 << 24), 1 << 24);
                spell_int(t, iv)
            } else {
                spell_float(t)
            };
            if s.contains(['e', 'E']) {
                st.exponent = true;
            }
            // judged by the standard library's correctly rounded parser, not by serde_json
            let v = if matches!(ty, LType::F64) { LValue::F64(s.parse::<f64>().unwrap().to_bits()) } else { LValue::F32(s.parse::<f32>().unwrap().to_bits()) };
            (v, J::Num(s))
        }
        LType::Utf8(_) => {
            let s = nasty_string(t, &[], 10);
            (LValue::Str(s.clone()), J::Str(s))
        }
        LType::List(f, _) => {
            let n = t.below(4);
            let xs: Vec<(LValue, J)> = (0..n).map(|_| gen_rfc_value(t, &f.ty, f.nullable, strict, st)).collect();
            (LValue::List(xs.iter().map(|x| x.0.clone()).collect()), J::Arr(xs.into_iter().map(|x| x.1).collect()))
        }
        LType::Struct(fs) => {
            let (v, j) = gen_rfc_object(t, fs, strict, st);
            (LValue::Struct(v), j)
        }
        LType::Map { val, .. } => {
            let n = t.below(4);
            let mut es: Vec<(LValue, LValue)> = vec![];
            let mut ms = vec![];
            for _ in 0..n {
                let k = nasty_string(t, &[], 6);
                if es.iter().any(|e| e.0 == LValue::Str(k.clone())) {
                    continue;
                }
                let (v, j) = gen_rfc_value(t, &val.ty, val.nullable, strict, st);
                es.push((LValue::Str(k.clone()), v));
                ms.push((k, j));
            }
            (LValue::Map(es), J::Obj(ms))
        }
        _ => (LValue::Null, J::Null),
    }
}

/// object for `fields`: members in random order, null members of nullable fields possibly omitted, unknown members
/// added when the reader is not strict
fn gen_rfc_object(t: &mut Tape, fields: &[LField], strict: bool, st: &mut Stats) -> (Vec<LValue>, J) {
    let mut vals = vec![];
    let mut ms: Vec<(String, J)> = vec![];
    for f in fields {
        let (v, j) = gen_rfc_value(t, &f.ty, f.nullable, strict, st);
        if !(v.is_null() && t.bool()) {
            ms.push((f.name.clone(), j));
        }
        vals.push(v);
    }
    if !strict && t.chance(60) {
        for i in 0..1 + t.below(2) {
            ms.push((format!("zz{}", i), junk(t, 0, st)));
        }
    }
    let p = t.perm(ms.len());
    let ms2: Vec<(String, J)> = p.iter().map(|i| ms[*i].clone()).collect();
    (vals, J::Obj(ms2))
}

const INVALID: [(&str, &str); 12] = [
    ("lone-high-surrogate", r#"{"s":"a\uD83Db"}"#),
    ("lone-high-surrogate", r#"{"s":"\uD800"}"#),
    ("lone-low-surrogate", r#"{"s":"\uDC00"}"#),
    ("lone-low-surrogate", r#"{"s":"x\uDE00A"}"#),
    ("high-then-non-low", r#"{"s":"\uD83DA"}"#),
    ("high-then-high", r#"{"s":"\uD83D\uD83D"}"#),
    ("bad-escape", r#"{"s":"\q"}"#),
    ("bad-hex", r#"{"s":"\u00G0"}"#),
    ("truncated-string", r#"{"s":"abc"#),
    ("truncated-object", r#"{"s":"abc","#),
    ("bad-literal", r#"{"b":tru}"#),
    ("bad-number", r#"{"n":1.2.3}"#),
];

fn json_read_all(text: &[u8], schema: SchemaRef, flatten: bool, strict: bool, bs: usize) -> Result<Vec<RecordBatch>, String> {
    let r = arrow_json::ReaderBuilder::new(schema).with_batch_size(bs).with_strict_mode(strict).with_flatten(flatten).build(Cursor::new(text.to_vec())).map_err(|e| e.to_string())?;
    let mut out = vec![];
    for x in r {
        out.push(x.map_err(|e| e.to_string())?);
    }
    Ok(out)
}

pub fn sub_json_rfc(c: &mut Case) -> CaseResult {
    if c.tape.chance(24) {
        // invalid documents: rejected by the independent parser and by arrow-json (Err, no panic)
        let (kind, doc) = *c.tape.pick(&INVALID);
        let mut bytes = doc.as_bytes().to_vec();
        let kind = if c.tape.chance(30) {
            bytes = b"{\"s\":\"a\xffb\"}".to_vec();
            "non-utf8"
        } else {
            kind
        };
        c.class(format!("invalid:{}", kind));
        c.describe(json!({"invalid": kind, "doc": String::from_utf8_lossy(&bytes)}));
        c.nontrivial();
        let schema = Arc::new(Schema::new(vec![
            Field::new("s", DataType::Utf8, true),
            Field::new("b", DataType::Boolean, true),
            Field::new("n", DataType::Int64, true),
        ]));
        ensure!(serde_json::from_slice::<serde_json::Value>(&bytes).is_err(), "harness:invalid-doc-accepted", "serde_json accepts {:?}", doc);
        let flatten = c.tape.bool();
        let r = no_panic("json_rfc:read-invalid", || json_read_all(&bytes, schema, flatten, false, 1024))?;
        if let Ok(b) = r {
            fail!(format!("json_rfc:invalid-accepted:{}", kind), "arrow-json accepted the invalid document {:?} and decoded {} rows", String::from_utf8_lossy(&bytes), b.iter().map(|x| x.num_rows()).sum::<usize>());
        }
        c.evals(1);
        return Ok(());
    }
    let ncols = 1 + c.tape.below(4);
    let p = c.tape.perm(RFC_NAMES.len());
    let fields: Vec<LField> = (0..ncols).map(|i| gen_rfc_field(&mut c.tape, 0, RFC_NAMES[p[i]])).collect();
    let strict = c.tape.chance(64);
    let form = c.tape.below(3); // 0 single/stream of documents, 1 top-level array, 2 stream
    let rows = if form == 0 && c.tape.bool() { 1 } else { c.tape.below(6) };
    let mut st = Stats { exponent: false, junk_depth: 0 };
    let mut cols: LBatch = vec![vec![]; ncols];
    let mut docs = vec![];
    for _ in 0..rows {
        let (vals, j) = gen_rfc_object(&mut c.tape, &fields, strict, &mut st);
        for (col, v) in cols.iter_mut().zip(vals) {
            col.push(v);
        }
        docs.push(j);
    }
    let mut text = String::new();
    let mut escapes = 0usize;
    json_ws(&mut c.tape, &mut text);
    if form == 1 {
        render_json(&mut c.tape, &J::Arr(docs.clone()), &mut text, &mut escapes);
    } else {
        for (i, d) in docs.iter().enumerate() {
            if i > 0 {
                text.push(*c.tape.pick(&['\n', ' ', '\t', '\r']));
                json_ws(&mut c.tape, &mut text);
            }
            render_json(&mut c.tape, d, &mut text, &mut escapes);
        }
    }
    json_ws(&mut c.tape, &mut text);
    let bs = batch_size_for(&mut c.tape, rows);
    c.class(if form == 1 { "form:array" } else if rows == 1 { "form:single" } else { "form:stream" });
    if text.contains("\\uD8") || text.contains("\\ud8") {
        c.class("surrogate-pair");
    }
    if escapes > 0 {
        c.class("escapes");
    }
    if st.exponent {
        c.class("number:exponent");
    }
    if st.junk_depth >= 30 {
        c.class("deep-nesting");
    }
    if strict {
        c.class("strict");
    }
    for f in &fields {
        c.class(format!("family:{}", f.ty.family()));
    }
    c.describe(json!({"fields": fields.iter().map(|f| format!("{:?}: {}{}", f.name, f.ty.arrow(), if f.nullable {"?"} else {""})).collect::<Vec<_>>(), "form": form, "rows": rows, "strict": strict, "batch_size": bs, "text": text.chars().take(1500).collect::<String>()}));
    if rows > 0 && (escapes > 0 || st.exponent) {
        c.nontrivial();
    }
    // independent acceptor
    if form == 1 {
        match serde_json::from_str::<serde_json::Value>(&text) {
            Ok(serde_json::Value::Array(a)) => ensure!(a.len() == rows, "harness:renderer", "serde_json sees {} rows, rendered {}", a.len(), rows),
            Ok(_) => fail!("harness:renderer", "rendered array document is not an array"),
            Err(e) => fail!("harness:renderer", "serde_json rejects the rendered document: {} ; {}", e, text_preview(text.as_bytes())),
        }
    } else {
        let mut n = 0;
        for v in serde_json::Deserializer::from_str(&text).into_iter::<serde_json::Value>() {
            if let Err(e) = v {
                fail!("harness:renderer", "serde_json rejects the rendered document: {} ; {}", e, text_preview(text.as_bytes()));
            }
            n += 1;
        }
        ensure!(n == rows, "harness:renderer", "serde_json sees {} documents, rendered {}", n, rows);
    }
    let schema = schema_of(&fields, None);
    let out = match no_panic("json_rfc:read", || json_read_all(text.as_bytes(), schema.clone(), form == 1, strict, bs))? {
        Ok(o) => o,
        Err(e) => fail!("json_rfc:rejected", "arrow-json rejects an RFC 8259 document that serde_json accepts: {} ; {}", e, text_preview(text.as_bytes())),
    };
    let (_, got) = super::io::collect(&schema, &out);
    if let Some(m) = first_mismatch(&fields, &got, &cols) {
        fail!("json_rfc:value", "{} ; {}", m, text_preview(text.as_bytes()));
    }
    c.evals(1);
    Ok(())
}

// ------------------------------------------------------------------------------------------------ (e) csv_rfc4180
const CSV_ALPHA: [&str; 18] = ["a", "b", "1", " ", "\"", ",", "\r\n", "\n", "\r", "é", "😀", "\"\"", "x,y", "\t", "'", "\\", ";", "中"];

pub fn sub_csv_rfc(c: &mut Case) -> CaseResult {
    let ncols = 1 + c.tape.below(5);
    let nrows = match c.tape.below(8) {
        0 => 0,
        1 => 1,
        _ => 1 + c.tape.below(8),
    };
    let header = c.tape.chance(100);
    let o = Rfc4180 { crlf: !c.tape.chance(100), final_break: !c.tape.chance(80) };
    let never_null = c.tape.bool();
    let mut quoted_quote = false;
    let mut embedded_break = false;
    let mut empty_last = false;
    let field = |t: &mut Tape| -> String {
        let n = match t.below(6) {
            0 => 0,
            1 => 1,
            _ => 1 + t.below(6),
        };
        (0..n).map(|_| *t.pick(&CSV_ALPHA)).collect()
    };
    let mut records: Vec<Vec<String>> = vec![];
    if header {
        records.push((0..ncols).map(|i| format!("h{}{}", i, field(&mut c.tape))).collect());
    }
    for _ in 0..nrows {
        let r: Vec<String> = (0..ncols).map(|_| field(&mut c.tape)).collect();
        if r.iter().any(|f| f.contains('"')) {
            quoted_quote = true;
        }
        if r.iter().any(|f| f.contains('\n') || f.contains('\r')) {
            embedded_break = true;
        }
        if r.last().is_some_and(|f| f.is_empty()) && ncols > 1 {
            empty_last = true;
        }
        records.push(r);
    }
    let mut quoted = 0usize;
    let bytes = render_rfc4180(&mut c.tape, &records, &o, &mut quoted);
    let bs = batch_size_for(&mut c.tape, nrows);
    let fields: Vec<LField> = (0..ncols).map(|i| LField { name: format!("f{}", i), ty: LType::Utf8(if c.tape.chance(60) { Enc::View } else { Enc::O32 }), nullable: true }).collect();
    let schema = schema_of(&fields, None);
    c.class(if o.crlf { "crlf" } else { "lf" });
    if !o.final_break && !records.is_empty() {
        c.class("no-final-break");
    }
    if header {
        c.class("header");
    }
    if quoted_quote {
        c.class("quoted-quote");
    }
    if embedded_break {
        c.class("embedded-break");
    }
    if empty_last {
        c.class("empty-last-field");
    }
    if ncols == 1 {
        c.class("single-column");
    }
    c.describe(json!({"ncols": ncols, "rows": nrows, "header": header, "crlf": o.crlf, "final_break": o.final_break, "never_null": never_null, "batch_size": bs, "text": String::from_utf8_lossy(&bytes).chars().take(800).collect::<String>()}));
    if nrows > 0 && quoted > 0 {
        c.nontrivial();
    }
    let want: LBatch = (0..ncols)
        .map(|ci| records.iter().skip(header as usize).map(|r| if r[ci].is_empty() && !never_null { LValue::Null } else { LValue::Str(r[ci].clone()) }).collect())
        .collect();
    let res = no_panic("csv_rfc:read", || -> Result<Vec<RecordBatch>, String> {
        let mut b = arrow_csv::ReaderBuilder::new(schema.clone()).with_header(header).with_batch_size(bs);
        if never_null {
            // a regex that matches no field: empty fields stay empty strings
            b = b.with_null_regex(regex::Regex::new("^\\x00never\\x00$").unwrap());
        }
        let r = b.build(Cursor::new(bytes.clone())).map_err(|e| e.to_string())?;
        let mut out = vec![];
        for x in r {
            out.push(x.map_err(|e| e.to_string())?);
        }
        Ok(out)
    })?;
    let out = match res {
        Ok(o) => o,
        Err(e) => fail!("csv_rfc:rejected", "arrow-csv rejects an RFC 4180 file: {} ; {}", e, text_preview(&bytes)),
    };
    let (_, got) = super::io::collect(&schema, &out);
    if let Some(m) = first_mismatch(&fields, &got, &want) {
        fail!("csv_rfc:split", "{} ; {}", m, text_preview(&bytes));
    }
    c.evals(1);
    Ok(())
}
