//! C20 helpers: naive reference implementations (LIKE matcher, case folding via the regex crate, substring rules)
//! and string/pattern generators. Everything random is decoded from a `Tape`.
#![allow(dead_code)]
use regex::Regex;
use std::cell::RefCell;
use std::collections::HashMap;
use vp_engine::model::*;
use vp_engine::tape::Tape;

// ------------------------------------------------------------------------------------------------ LIKE reference
#[derive(Clone, Copy, Debug, PartialEq)]
pub enum Tok {
    Any,
    One,
    /// literal char; bool = came from a backslash escape
    Lit(char, bool),
}

/// `\` escapes the next char (whatever it is); a trailing `\` is a literal backslash.
pub fn parse_like(p: &str) -> Vec<Tok> {
    let mut out = vec![];
    let mut it = p.chars();
    while let Some(c) = it.next() {
        match c {
            '\\' => match it.next() {
                Some(n) => out.push(Tok::Lit(n, true)),
                None => out.push(Tok::Lit('\\', false)),
            },
            '%' => out.push(Tok::Any),
            '_' => out.push(Tok::One),
            c => out.push(Tok::Lit(c, false)),
        }
    }
    out
}

thread_local! {
    static FOLD: RefCell<(HashMap<char, Regex>, HashMap<(char, char), bool>)> = RefCell::new((HashMap::new(), HashMap::new()));
}

/// case-equivalence of two chars *as implemented by the regex engine*: does `(?i)^c$` match `h`
pub fn fold_eq(c: char, h: char) -> bool {
    if c == h {
        return true;
    }
    FOLD.with(|f| {
        let mut f = f.borrow_mut();
        let (res, memo) = &mut *f;
        if let Some(b) = memo.get(&(c, h)) {
            return *b;
        }
        let re = res.entry(c).or_insert_with(|| Regex::new(&format!("(?i)^{}$", regex::escape(&c.to_string()))).unwrap());
        let mut buf = [0u8; 4];
        let b = re.is_match(h.encode_utf8(&mut buf));
        memo.insert((c, h), b);
        b
    })
}

/// Matcher over chars (dynamic-programming form of the naive backtracking matcher).
pub fn like_ref(toks: &[Tok], s: &[char], ci: bool) -> bool {
    let n = s.len();
    let mut next = vec![false; n + 1];
    next[n] = true;
    for tk in toks.iter().rev() {
        let mut cur = vec![false; n + 1];
        match tk {
            Tok::Any => {
                cur[n] = next[n];
                for j in (0..n).rev() {
                    cur[j] = next[j] || cur[j + 1];
                }
            }
            Tok::One => {
                for j in 0..n {
                    cur[j] = next[j + 1];
                }
            }
            Tok::Lit(c, _) => {
                for j in 0..n {
                    cur[j] = next[j + 1] && if ci { fold_eq(*c, s[j]) } else { *c == s[j] };
                }
            }
        }
        next = cur;
    }
    next[0]
}

#[derive(Clone, Copy, Debug, PartialEq)]
pub enum LikeOp {
    Like,
    ILike,
    NLike,
    NILike,
}
pub const LIKE_OPS: [LikeOp; 4] = [LikeOp::Like, LikeOp::ILike, LikeOp::NLike, LikeOp::NILike];
impl LikeOp {
    pub fn name(&self) -> &'static str {
        match self {
            LikeOp::Like => "like",
            LikeOp::ILike => "ilike",
            LikeOp::NLike => "nlike",
            LikeOp::NILike => "nilike",
        }
    }
    pub fn ci(&self) -> bool {
        matches!(self, LikeOp::ILike | LikeOp::NILike)
    }
    pub fn neg(&self) -> bool {
        matches!(self, LikeOp::NLike | LikeOp::NILike)
    }
}

pub fn expect_like(op: LikeOp, h: Option<&str>, p: Option<&str>) -> Option<bool> {
    let (h, p) = (h?, p?);
    let toks = parse_like(p);
    let s: Vec<char> = h.chars().collect();
    Some(like_ref(&toks, &s, op.ci()) != op.neg())
}

/// the property's non-trivial rule for a pattern: a wildcard adjacent to a multi-byte literal or to an escape
pub fn pattern_nontrivial(p: &str) -> bool {
    let t = parse_like(p);
    let special = |x: &Tok| matches!(x, Tok::Lit(c, esc) if *esc || c.len_utf8() > 1);
    let wild = |x: &Tok| matches!(x, Tok::Any | Tok::One);
    t.windows(2).any(|w| (wild(&w[0]) && special(&w[1])) || (special(&w[0]) && wild(&w[1])))
}
pub fn has_multibyte(s: &str) -> bool {
    !s.is_ascii()
}

/// label mirroring the classifier's shape boundaries (for the class histogram only)
pub fn shape(p: &str) -> &'static str {
    let has = |s: &str| s.contains(['%', '_', '\\']);
    if p.is_empty() {
        "shape:empty"
    } else if !has(p) {
        "shape:eq"
    } else if p.ends_with('%') && !has(&p[..p.len() - 1]) {
        "shape:prefix"
    } else if p.starts_with('%') && !has(&p[1..]) {
        "shape:suffix"
    } else if p.len() >= 2 && p.starts_with('%') && p.ends_with('%') && !has(&p[1..p.len() - 1]) {
        "shape:contains"
    } else {
        "shape:regex"
    }
}
pub fn extra_shapes(p: &str) -> Vec<&'static str> {
    let mut v = vec![];
    let tb = p.chars().rev().take_while(|c| *c == '\\').count();
    if tb % 2 == 1 {
        v.push("trailing-backslash");
    }
    if p.ends_with('%') && p[..p.len() - 1].chars().rev().take_while(|c| *c == '\\').count() % 2 == 1 {
        v.push("escaped-pct-end");
    }
    if !p.is_empty() && p.chars().all(|c| c == '%' || c == '_') {
        v.push("only-wildcards");
    }
    if pattern_nontrivial(p) {
        v.push("wildcard-next-to-multibyte-or-escape");
    }
    v
}

// ------------------------------------------------------------------------------------------------ substring reference
/// documented rule: start >= 0 counts from the start, otherwise from the end; length None = to the end.
/// Works on any unit (bytes or chars); arithmetic in i128 so that no argument can overflow.
pub fn sub_range(len: usize, start: i64, length: Option<u64>) -> (usize, usize) {
    let l = len as i128;
    let s = start as i128;
    let ns = if s >= 0 { s.min(l) } else { (l + s).max(0) };
    let ne = match length {
        Some(x) => (ns + x as i128).min(l),
        None => l,
    };
    (ns as usize, ne as usize)
}
pub fn char_substring(s: &str, start: i64, length: Option<u64>) -> String {
    let ch: Vec<char> = s.chars().collect();
    let (a, b) = sub_range(ch.len(), start, length);
    ch[a..b].iter().collect()
}
/// byte substring of a string: Err(()) if a cut is not on a char boundary
pub fn byte_substring_str(s: &str, start: i64, length: Option<u64>) -> Result<String, ()> {
    let (a, b) = sub_range(s.len(), start, length);
    if s.is_char_boundary(a) && s.is_char_boundary(b) {
        Ok(s[a..b].to_string())
    } else {
        Err(())
    }
}
/// is a cut adjacent to a multi-byte char (non-trivial rule, second half)
pub fn cut_near_multibyte(s: &str, a: usize, b: usize) -> bool {
    let near = |pos: usize| s.char_indices().any(|(i, c)| c.len_utf8() > 1 && (i == pos || i + c.len_utf8() == pos || (i < pos && pos < i + c.len_utf8())));
    near(a) || near(b)
}

// ------------------------------------------------------------------------------------------------ generators
pub const SIGMA: &[char] = &[
    'a', 'b', 'A', 'B', 'k', 'K', 's', 'S', 'z', '0', '9', ' ', '\n', '.', '*', '+', '?', '(', ')', '[', ']', '{', '}', '^', '$', '|', '\\', '/', '%', '_', 'é', 'É',
    'ß', 'ſ', '\u{212A}', 'İ', 'ı', 'ǅ', 'Σ', 'σ', 'ς', '中', '😀', '\u{301}', 'ẞ', 'ǆ',
];
pub const SMALL: &[char] = &['a', 'é', 'A', 'É', 'b', '%', '_', '\\', '😀', 's', 'ſ'];
pub const ASCII: &[char] = &['a', 'b', 'A', 'B', 'k', 'K', 's', 'S', 'z', '0', ' ', '.', '%', '_', '\\', '\n', '*'];

#[derive(Clone, Copy, Debug, PartialEq)]
pub enum Prof {
    Ascii,
    Small,
    Full,
}
impl Prof {
    pub fn alphabet(&self) -> &'static [char] {
        match self {
            Prof::Ascii => ASCII,
            Prof::Small => SMALL,
            Prof::Full => SIGMA,
        }
    }
    pub fn name(&self) -> &'static str {
        match self {
            Prof::Ascii => "alphabet:ascii",
            Prof::Small => "alphabet:small",
            Prof::Full => "alphabet:full",
        }
    }
}
pub fn gen_prof(t: &mut Tape) -> Prof {
    match t.below(8) {
        0 | 1 => Prof::Ascii,
        2 | 3 | 4 => Prof::Small,
        _ => Prof::Full,
    }
}

pub fn gen_slen(t: &mut Tape, allow_long: bool) -> usize {
    match t.below(16) {
        0 => 0,
        1 => 1,
        2..=8 => t.below(7),
        9 | 10 => 7 + t.below(14),
        11 => 12,
        12 => 13,
        13 => t.below(21),
        14 => {
            if allow_long && t.chance(48) {
                20 + t.below(281)
            } else {
                t.below(21)
            }
        }
        _ => t.below(5),
    }
}
pub fn gen_str(t: &mut Tape, prof: Prof, allow_long: bool) -> String {
    let n = gen_slen(t, allow_long);
    let a = prof.alphabet();
    // strings made of few distinct chars make wildcard matches likely
    let narrow = t.chance(100);
    let k = if narrow { 1 + t.below(3) } else { a.len() };
    let base = t.below(a.len());
    (0..n).map(|_| a[(base + t.below(k)) % a.len()]).collect()
}

/// a column of optional strings with duplication (dictionary friendly, <= 64 distinct values)
pub fn gen_strcol(t: &mut Tape, n: usize, prof: Prof, null_chance: u32, allow_long: bool) -> Vec<Option<String>> {
    let use_pool = t.chance(110) || n > 60;
    let pool: Vec<String> = if use_pool { (0..1 + t.below(6)).map(|_| gen_str(t, prof, allow_long)).collect() } else { vec![] };
    (0..n)
        .map(|_| {
            if null_chance > 0 && t.chance(null_chance) {
                None
            } else if use_pool {
                Some(t.pick(&pool).clone())
            } else {
                Some(gen_str(t, prof, allow_long))
            }
        })
        .collect()
}
pub fn gen_rows(t: &mut Tape) -> usize {
    match t.below(12) {
        0 => 0,
        1 => 1,
        2 => *t.pick(&[2usize, 3, 8, 9, 63, 64, 65]),
        3 => 20 + t.below(30),
        _ => 1 + t.below(12),
    }
}
pub fn gen_null_chance(t: &mut Tape) -> u32 {
    *t.pick(&[0u32, 40, 16, 0, 120, 255])
}

pub fn like_escape(s: &str) -> String {
    let mut o = String::new();
    for c in s.chars() {
        if matches!(c, '%' | '_' | '\\') {
            o.push('\\');
        }
        o.push(c);
    }
    o
}
pub fn flip_case(c: char) -> char {
    let mut u = c.to_uppercase();
    let mut l = c.to_lowercase();
    let (u1, u2) = (u.next(), u.next());
    let (l1, l2) = (l.next(), l.next());
    match (u1, u2, l1, l2) {
        (Some(x), None, _, _) if x != c => x,
        (_, _, Some(x), None) if x != c => x,
        _ => c,
    }
}

/// literal text (not escaped) of 0..=4 chars, taken from a haystack string (prefix/suffix/infix) or random
pub fn lit_chunk(t: &mut Tape, hay: &[Option<String>], prof: Prof, kind: usize) -> String {
    let cands: Vec<&String> = hay.iter().flatten().collect();
    let mut x: String = if !cands.is_empty() && !t.chance(70) {
        let h: Vec<char> = cands[t.below(cands.len())].chars().collect();
        let k = t.below(5).min(h.len());
        let k = if t.chance(40) { h.len() } else { k };
        match kind % 3 {
            0 => h[..k].iter().collect(),
            1 => h[h.len() - k..].iter().collect(),
            _ => {
                let o = t.below(h.len() - k + 1);
                h[o..o + k].iter().collect()
            }
        }
    } else {
        let a = prof.alphabet();
        (0..t.below(5)).map(|_| *t.pick(a)).collect()
    };
    if t.chance(40) {
        x = x.chars().map(|c| if t.bool() { flip_case(c) } else { c }).collect();
    }
    x
}

pub const N_SHAPES: usize = 22;
pub fn gen_pattern_shape(t: &mut Tape, hay: &[Option<String>], prof: Prof, shape: usize) -> String {
    let x = like_escape(&lit_chunk(t, hay, prof, shape));
    match shape {
        0 => format!("{}%", x),
        1 => format!("%{}", like_escape(&lit_chunk(t, hay, prof, 1))),
        2 => format!("%{}%", like_escape(&lit_chunk(t, hay, prof, 2))),
        3 => format!("{}\\%", x),
        4 => format!("\\%{}", x),
        5 => "%\\%".to_string(),
        6 => format!("{}_", x),
        7 => format!("{}\\", x),
        8 => "%%".to_string(),
        9 => "%_%".to_string(),
        10 => format!("{}%{}", x, like_escape(&lit_chunk(t, hay, prof, 1))),
        11 => format!("_{}", like_escape(&lit_chunk(t, hay, prof, 1))),
        12 => x,
        13 => lit_chunk(t, hay, prof, 0),
        14 => {
            // mask of a haystack string
            let cands: Vec<&String> = hay.iter().flatten().collect();
            if cands.is_empty() {
                return "_".to_string();
            }
            let h: Vec<char> = cands[t.below(cands.len())].chars().take(24).collect();
            let mut o = String::new();
            let mut i = 0;
            while i < h.len() {
                match t.below(8) {
                    0 | 1 => o.push('_'),
                    2 => {
                        o.push('%');
                        i += t.below(3);
                    }
                    3 => o.push(flip_case(h[i])),
                    _ => o.push_str(&like_escape(&h[i].to_string())),
                }
                i += 1;
            }
            if t.chance(40) {
                o.push('%');
            }
            o
        }
        15 => {
            let a = prof.alphabet();
            (0..t.below(7))
                .map(|_| match t.below(6) {
                    0 => '%',
                    1 => '_',
                    2 => '\\',
                    _ => *t.pick(a),
                })
                .collect()
        }
        16 => format!("{}\\{}", x, t.pick(prof.alphabet())),
        17 => format!("%{}_", x),
        18 => format!("{}\\\\%", x),
        19 => (if t.bool() { "" } else { "\\" }).to_string(),
        20 => format!("_%{}", x),
        _ => format!("%{}%{}%", x, like_escape(&lit_chunk(t, hay, prof, 2))),
    }
}
pub fn gen_pattern(t: &mut Tape, hay: &[Option<String>], prof: Prof) -> String {
    // ASCII columns: favour the shapes that have an ASCII fast path (equality, prefix, suffix)
    let s = if prof == Prof::Ascii && t.chance(110) { *t.pick(&[0usize, 1, 12, 13, 2]) } else { t.below(N_SHAPES) };
    gen_pattern_shape(t, hay, prof, s)
}

// ------------------------------------------------------------------------------------------------ representations
#[derive(Clone, Debug, PartialEq)]
pub struct Rep {
    pub enc: Enc,
    pub dict: Option<(u8, bool)>,
}
pub const ENCS: [Enc; 3] = [Enc::O32, Enc::O64, Enc::View];
pub const KEYS: [(u8, bool); 8] = [(32, true), (8, true), (16, false), (64, true), (8, false), (16, true), (32, false), (64, false)];
impl Rep {
    pub fn plain(enc: Enc) -> Rep {
        Rep { enc, dict: None }
    }
    pub fn ty(&self, binary: bool) -> LType {
        let base = if binary { LType::Binary(self.enc) } else { LType::Utf8(self.enc) };
        match self.dict {
            Some((b, s)) => LType::Dict { kbits: b, ksigned: s, value: Box::new(base) },
            None => base,
        }
    }
    pub fn name(&self) -> String {
        let e = match self.enc {
            Enc::O32 => "o32",
            Enc::O64 => "o64",
            Enc::View => "view",
        };
        match self.dict {
            Some((b, s)) => format!("dict<{}{},{}>", if s { "i" } else { "u" }, b, e),
            None => e.to_string(),
        }
    }
    pub fn class(&self) -> &'static str {
        match (self.dict.is_some(), self.enc) {
            (true, _) => "rep:dictionary",
            (false, Enc::O32) => "rep:utf8/binary",
            (false, Enc::O64) => "rep:large",
            (false, Enc::View) => "rep:view",
        }
    }
}
pub fn gen_rep(t: &mut Tape, enc: Enc, dict_chance: u32) -> Rep {
    if t.chance(dict_chance) {
        Rep { enc, dict: Some(*t.pick(&KEYS)) }
    } else {
        Rep::plain(enc)
    }
}

pub fn sv(col: &[Option<String>]) -> Vec<LValue> {
    col.iter()
        .map(|x| match x {
            Some(s) => LValue::Str(s.clone()),
            None => LValue::Null,
        })
        .collect()
}
pub fn bv(col: &[Option<Vec<u8>>]) -> Vec<LValue> {
    col.iter()
        .map(|x| match x {
            Some(s) => LValue::Bytes(s.clone()),
            None => LValue::Null,
        })
        .collect()
}
pub fn show(s: &Option<String>) -> String {
    match s {
        Some(s) => {
            if s.chars().count() > 40 {
                format!("{:?}… ({} chars)", s.chars().take(40).collect::<String>(), s.chars().count())
            } else {
                format!("{:?}", s)
            }
        }
        None => "NULL".into(),
    }
}
pub fn show_col(c: &[Option<String>]) -> String {
    let p: Vec<String> = c.iter().take(10).map(show).collect();
    format!("[{}{}] (len {})", p.join(", "), if c.len() > 10 { ", …" } else { "" }, c.len())
}

/// deterministic expansion of 8 tape bytes into a longer tape (used by the enumerated grid whose tape is short)
pub fn expand_tape(seed: u64, n: usize) -> Tape {
    let mut x = seed ^ 0xD1B54A32D192ED03;
    let mut v = Vec::with_capacity(n + 8);
    while v.len() < n {
        x = x.wrapping_add(0x9E3779B97F4A7C15);
        let mut z = x;
        z = (z ^ (z >> 30)).wrapping_mul(0xBF58476D1CE4E5B9);
        z = (z ^ (z >> 27)).wrapping_mul(0x94D049BB133111EB);
        z ^= z >> 31;
        v.extend_from_slice(&z.to_le_bytes());
    }
    Tape::new(v)
}
