//! Kernel catalogue shared by C01 (pipelines) and C02 (congruence / commutation): a stage is described by
//! *logical* arguments (so it can be realised several times with different physical layouts) and applied to an array.
#![allow(dead_code)]
use arrow_array::cast::AsArray;
use arrow_array::*;
use arrow_cast::{can_cast_types, cast_with_options, CastOptions};
use arrow_ord::sort::{sort, sort_limit};
use arrow_row::{RowConverter, SortField};
use arrow_schema::{ArrowError, DataType, SortOptions};
use serde_json::{json, Value};
use std::sync::Arc;
use vp_engine::model::*;
use vp_engine::r#gen::*;
use vp_engine::realise::*;
use vp_engine::tape::Tape;

#[derive(Clone, Debug)]
pub enum Stage {
    Filter(Vec<Option<bool>>),
    Take(Vec<Option<usize>>),
    Slice(usize, usize),
    ConcatSelf(Vec<LValue>),
    Interleave(Vec<LValue>, Vec<(usize, usize)>),
    Nullif(Vec<Option<bool>>),
    Shift(i64),
    Zip(Vec<Option<bool>>, Vec<LValue>),
    Cast(DataType, bool),
    /// op index into ARITH, other operand (same type) and whether it is a scalar
    Arith(usize, Vec<LValue>, bool),
    Neg(bool),
    Cmp(usize, Vec<LValue>, bool),
    IsNull(bool),
    BoolBin(usize, Vec<Option<bool>>),
    Not,
    Sort(bool, bool, Option<usize>),
    RowRoundtrip(bool, bool),
    Length,
    Substring(i64, Option<u64>),
    Like(usize, String),
    Format,
}

pub const ARITH: [&str; 8] = ["add", "sub", "mul", "div", "rem", "add_wrapping", "sub_wrapping", "mul_wrapping"];
pub const CMP: [&str; 8] = ["eq", "neq", "lt", "lt_eq", "gt", "gt_eq", "distinct", "not_distinct"];
pub const BOOLBIN: [&str; 5] = ["and", "or", "and_kleene", "or_kleene", "and_not"];
pub const LIKE: [&str; 6] = ["like", "ilike", "nlike", "starts_with", "ends_with", "contains"];

impl Stage {
    pub fn name(&self) -> String {
        match self {
            Stage::Filter(_) => "filter".into(),
            Stage::Take(_) => "take".into(),
            Stage::Slice(..) => "slice".into(),
            Stage::ConcatSelf(_) => "concat".into(),
            Stage::Interleave(..) => "interleave".into(),
            Stage::Nullif(_) => "nullif".into(),
            Stage::Shift(_) => "shift".into(),
            Stage::Zip(..) => "zip".into(),
            Stage::Cast(dt, safe) => format!("cast({}, safe={})", dt, safe),
            Stage::Arith(op, _, s) => format!("{}{}", ARITH[*op], if *s { "(scalar)" } else { "" }),
            Stage::Neg(w) => if *w { "neg_wrapping".into() } else { "neg".into() },
            Stage::Cmp(op, _, s) => format!("{}{}", CMP[*op], if *s { "(scalar)" } else { "" }),
            Stage::IsNull(n) => if *n { "is_null".into() } else { "is_not_null".into() },
            Stage::BoolBin(op, _) => BOOLBIN[*op].into(),
            Stage::Not => "not".into(),
            Stage::Sort(d, n, l) => format!("sort(desc={},nulls_first={},limit={:?})", d, n, l),
            Stage::RowRoundtrip(d, n) => format!("row_roundtrip(desc={},nulls_first={})", d, n),
            Stage::Length => "length".into(),
            Stage::Substring(s, l) => format!("substring({},{:?})", s, l),
            Stage::Like(op, p) => format!("{}({:?})", LIKE[*op], p),
            Stage::Format => "format".into(),
        }
    }
    pub fn describe(&self) -> Value {
        json!(self.name())
    }
    /// row-wise kernels commute with row selection
    pub fn row_wise(&self) -> bool {
        matches!(self, Stage::Nullif(_) | Stage::Zip(..) | Stage::Cast(..) | Stage::Arith(..) | Stage::Neg(_) | Stage::Cmp(..) | Stage::IsNull(_) | Stage::BoolBin(..) | Stage::Not | Stage::RowRoundtrip(..) | Stage::Length | Stage::Substring(..) | Stage::Like(..) | Stage::Format)
    }
    /// restrict the per-row auxiliary arguments to the rows `idx` (for commutation with take)
    pub fn select_rows(&self, idx: &[usize]) -> Stage {
        let selb = |v: &Vec<Option<bool>>| idx.iter().map(|i| v[*i]).collect::<Vec<_>>();
        let selv = |v: &Vec<LValue>, scalar: bool| if scalar { v.clone() } else { idx.iter().map(|i| v[*i].clone()).collect::<Vec<_>>() };
        match self {
            Stage::Nullif(m) => Stage::Nullif(selb(m)),
            Stage::Zip(m, o) => Stage::Zip(selb(m), selv(o, false)),
            Stage::Arith(op, o, s) => Stage::Arith(*op, selv(o, *s), *s),
            Stage::Cmp(op, o, s) => Stage::Cmp(*op, selv(o, *s), *s),
            Stage::BoolBin(op, o) => Stage::BoolBin(*op, selb(o)),
            s => s.clone(),
        }
    }
}

thread_local! {
    static AVOID_KNOWN: std::cell::Cell<bool> = const { std::cell::Cell::new(true) };
}
/// set per case from `!c.strict`
pub fn set_avoid_known(v: bool) {
    AVOID_KNOWN.with(|a| a.set(v));
}
fn avoid_known() -> bool {
    AVOID_KNOWN.with(|a| a.get())
}

fn is_numeric(ty: &LType) -> bool {
    matches!(ty, LType::Int { .. } | LType::F16 | LType::F32 | LType::F64 | LType::Decimal { width: 128 | 256, .. })
}
fn is_string(ty: &LType) -> bool {
    matches!(ty, LType::Utf8(_)) || matches!(ty, LType::Dict { value, .. } if matches!(**value, LType::Utf8(_)))
}
fn comparable(ty: &LType) -> bool {
    use LType::*;
    match ty {
        Bool | Int { .. } | F16 | F32 | F64 | Decimal { .. } | Date32 | Date64 | Time32(_) | Time64(_) | Timestamp(..) | Duration(_) | IntervalYM | IntervalDT | IntervalMDN | Utf8(_) | Binary(_) | FixedBinary(_) => true,
        Dict { value, .. } => comparable(value) && !matches!(**value, Dict { .. }),
        _ => false,
    }
}
/// committed support grid of sort (mirrors arrow-ord's documented support: primitives, boolean, byte arrays, fixed
/// size binary, dictionaries of those, run-end of those, lists of primitive/byte children)
fn sortable(ty: &LType) -> bool {
    use LType::*;
    let leaf = |t: &LType| t.arrow().is_primitive() || matches!(t, Bool | Utf8(_) | Binary(_) | FixedBinary(_));
    match ty {
        t if leaf(t) => true,
        Dict { value, .. } => leaf(value),
        Ree { value, .. } => leaf(&value.ty),
        List(f, _) | FixedList(f, _) => leaf(&f.ty),
        _ => false,
    }
}
fn row_ok(ty: &LType) -> bool {
    RowConverter::supports_fields(&[SortField::new(ty.arrow())])
}
fn has_union(ty: &LType) -> bool {
    ty.any(&|t| matches!(t, LType::Union { .. }))
}

const CAST_TARGETS: [DataType; 14] = [
    DataType::Int8,
    DataType::Int32,
    DataType::Int64,
    DataType::UInt16,
    DataType::UInt64,
    DataType::Float32,
    DataType::Float64,
    DataType::Utf8,
    DataType::LargeUtf8,
    DataType::Utf8View,
    DataType::Binary,
    DataType::Boolean,
    DataType::Date32,
    DataType::Decimal128(20, 3),
];

/// Generate a stage applicable to a column of type `ty` with logical content `col`.
pub fn gen_stage(t: &mut Tape, ty: &LType, col: &[LValue], allow_errors: bool) -> Stage {
    let n = col.len();
    let vc = ValCfg::default();
    let union = has_union(ty);
    for _ in 0..12 {
        let k = t.below(22);
        let st = match k {
            0 | 1 => Stage::Filter((0..n).map(|_| if t.chance(30) { None } else { Some(t.bool()) }).collect()),
            2 | 3 if n > 0 => {
                let m = t.below(n + 3);
                Stage::Take((0..m).map(|_| if !union && t.chance(30) { None } else { Some(t.below(n)) }).collect())
            }
            4 => {
                let o = t.below(n + 1);
                Stage::Slice(o, t.below(n - o + 1))
            }
            5 => {
                let m = t.below(12);
                Stage::ConcatSelf(gen_column(t, ty, true, m, &vc))
            }
            6 if n > 0 => {
                let m = 1 + t.below(8);
                let other = gen_column(t, ty, true, m, &vc);
                let k = t.below(16);
                let idx = (0..k).map(|_| if t.bool() { (0, t.below(n)) } else { (1, t.below(m)) }).collect();
                Stage::Interleave(other, idx)
            }
            7 if !union && !matches!(ty, LType::Ree { .. }) => Stage::Nullif((0..n).map(|_| if t.chance(30) { None } else { Some(t.chance(80)) }).collect()),
            8 if !union => Stage::Shift(t.range(-(n as i64) - 1, n as i64 + 1)),
            9 if !union => Stage::Zip((0..n).map(|_| if t.chance(30) { None } else { Some(t.bool()) }).collect(), gen_column(t, ty, true, n, &vc)),
            10 | 11 => {
                let to = t.pick(&CAST_TARGETS).clone();
                if !can_cast_types(&ty.arrow(), &to) {
                    continue;
                }
                // known findings of the cast kernels that make results depend on storage no valid row refers to
                // (C13f9/C13f9b: strict casts of dictionary / run-end / binary / nested arrays also convert unused
                // dictionary values, bytes outside the offsets and slots under null parents; casts of unions): such
                // casts are excluded by construction here unless replaying strictly; C13 carries the reproductions
                if avoid_known() && ty.any(&|t| matches!(t, LType::Decimal { .. })) && matches!(to, DataType::Decimal128(..)) {
                    continue;
                }
                // FixedSizeList(1 x run-end/union) -> value: null list rows cannot be masked in children without a validity
                // buffer (same root as open finding F9 nullif on run-end arrays)
                if avoid_known() && matches!(ty, LType::FixedList(f, 1) if f.ty.any(&|t| matches!(t, LType::Ree { .. } | LType::Union { .. }))) {
                    continue;
                }
                if avoid_known() {
                    let unsafe_storage = ty.any(&|t| matches!(t, LType::Dict { .. } | LType::Ree { .. } | LType::Binary(_) | LType::FixedBinary(_) | LType::List(..) | LType::FixedList(..) | LType::Struct(_) | LType::Map { .. }));
                    let strict_cast = !matches!(to, DataType::Boolean) && t.bool();
                    let _ = strict_cast;
                    if ty.any(&|t| matches!(t, LType::Union { .. })) {
                        continue;
                    }
                    if unsafe_storage {
                        // safe mode only
                        return Stage::Cast(to, true);
                    }
                }
                // known finding C13f10 (decimal -> decimal "infallible" rescale unwraps on the payload of null slots):
                // excluded by construction unless replaying strictly
                if avoid_known() && ty.any(&|t| matches!(t, LType::Decimal { .. })) && matches!(to, DataType::Decimal128(..)) {
                    continue;
                }
                Stage::Cast(to, if allow_errors { t.bool() } else { true })
            }
            12 if is_numeric(ty) => {
                let scalar = t.chance(80);
                let op = if allow_errors { t.below(ARITH.len()) } else { 5 + t.below(3) };
                let other = gen_column(t, ty, true, if scalar { 1 } else { n }, &vc);
                Stage::Arith(op, other, scalar)
            }
            13 if matches!(ty, LType::Int { signed: true, .. } | LType::F32 | LType::F64) => Stage::Neg(!allow_errors || t.bool()),
            14 | 15 if comparable(ty) => {
                let scalar = t.chance(80);
                Stage::Cmp(t.below(CMP.len()), gen_column(t, ty, true, if scalar { 1 } else { n }, &vc), scalar)
            }
            16 => Stage::IsNull(t.bool()),
            17 if matches!(ty, LType::Bool) => {
                if t.chance(60) {
                    Stage::Not
                } else {
                    Stage::BoolBin(t.below(BOOLBIN.len()), (0..n).map(|_| if t.chance(40) { None } else { Some(t.bool()) }).collect())
                }
            }
            18 if sortable(ty) => Stage::Sort(t.bool(), t.bool(), if t.bool() { Some(t.below(n + 2)) } else { None }),
            19 if row_ok(ty) && !union => Stage::RowRoundtrip(t.bool(), t.bool()),
            20 if is_string(ty) => match t.below(3) {
                0 => Stage::Length,
                1 if !matches!(ty, LType::Dict { .. } | LType::Utf8(Enc::View)) => Stage::Substring(t.range(-4, 4), if t.bool() { Some(t.below(5) as u64) } else { None }),
                _ => {
                    let pats = ["%", "a%", "%a", "%a%", "_", "a_", "\\%", "%é%", "", "ab", "%\n%", "__%"];
                    Stage::Like(t.below(LIKE.len()), t.pick(&pats).to_string())
                }
            },
            21 => Stage::Format,
            _ => continue,
        };
        return st;
    }
    Stage::Slice(0, n)
}

fn bool_arr(t: &mut Tape, v: &[Option<bool>]) -> BooleanArray {
    let vals: Vec<LValue> = v.iter().map(|x| x.map(LValue::Bool).unwrap_or(LValue::Null)).collect();
    realise(t, &LType::Bool, &vals, true, &Lay::fancy()).as_boolean().clone()
}

pub fn err_class(e: &ArrowError) -> String {
    let s = e.to_string();
    s.split(':').next().unwrap_or("").trim().to_string()
}

/// Apply a stage. Auxiliary arguments are realised with fresh layouts from the tape.
pub fn run_stage(st: &Stage, t: &mut Tape, ty: &LType, input: &ArrayRef) -> Result<ArrayRef, ArrowError> {
    let lay = Lay::fancy();
    match st {
        Stage::Filter(p) => arrow_select::filter::filter(input.as_ref(), &bool_arr(t, p)),
        Stage::Take(idx) => {
            let vals: Vec<LValue> = idx.iter().map(|x| x.map(|i| LValue::Int(i as i128)).unwrap_or(LValue::Null)).collect();
            let it = t.pick(&[LType::Int { bits: 32, signed: false }, LType::Int { bits: 64, signed: true }, LType::Int { bits: 32, signed: true }, LType::Int { bits: 64, signed: false }]).clone();
            let ia = realise(t, &it, &vals, true, &lay);
            arrow_select::take::take(input.as_ref(), ia.as_ref(), None)
        }
        Stage::Slice(o, l) => Ok(input.slice(*o, *l)),
        Stage::ConcatSelf(other) => {
            let o = realise(t, ty, other, true, &lay);
            arrow_select::concat::concat(&[input.as_ref(), o.as_ref()])
        }
        Stage::Interleave(other, idx) => {
            let o = realise(t, ty, other, true, &lay);
            arrow_select::interleave::interleave(&[input.as_ref(), o.as_ref()], idx)
        }
        Stage::Nullif(m) => arrow_select::nullif::nullif(input.as_ref(), &bool_arr(t, m)),
        Stage::Shift(o) => arrow_select::window::shift(input.as_ref(), *o),
        Stage::Zip(m, other) => {
            let o = realise(t, ty, other, true, &lay);
            arrow_select::zip::zip(&bool_arr(t, m), input, &o)
        }
        Stage::Cast(to, safe) => cast_with_options(input.as_ref(), to, &CastOptions { safe: *safe, ..Default::default() }),
        Stage::Arith(op, other, scalar) => {
            let o = realise(t, ty, other, true, &lay);
            let sc = if *scalar { Some(Scalar::new(o.clone())) } else { None };
            let rhs: &dyn Datum = match &sc {
                Some(s) => s,
                None => &o,
            };
            use arrow_arith::numeric::*;
            match *op {
                0 => add(input, rhs),
                1 => sub(input, rhs),
                2 => mul(input, rhs),
                3 => div(input, rhs),
                4 => rem(input, rhs),
                5 => add_wrapping(input, rhs),
                6 => sub_wrapping(input, rhs),
                _ => mul_wrapping(input, rhs),
            }
        }
        Stage::Neg(w) => {
            if *w {
                arrow_arith::numeric::neg_wrapping(input.as_ref())
            } else {
                arrow_arith::numeric::neg(input.as_ref())
            }
        }
        Stage::Cmp(op, other, scalar) => {
            let o = realise(t, ty, other, true, &lay);
            let sc = if *scalar { Some(Scalar::new(o.clone())) } else { None };
            let rhs: &dyn Datum = match &sc {
                Some(s) => s,
                None => &o,
            };
            use arrow_ord::cmp::*;
            let r = match *op {
                0 => eq(input, rhs),
                1 => neq(input, rhs),
                2 => lt(input, rhs),
                3 => lt_eq(input, rhs),
                4 => gt(input, rhs),
                5 => gt_eq(input, rhs),
                6 => distinct(input, rhs),
                _ => not_distinct(input, rhs),
            };
            r.map(|b| Arc::new(b) as ArrayRef)
        }
        Stage::IsNull(n) => if *n { arrow_arith::boolean::is_null(input.as_ref()) } else { arrow_arith::boolean::is_not_null(input.as_ref()) }.map(|b| Arc::new(b) as ArrayRef),
        Stage::BoolBin(op, other) => {
            let o = bool_arr(t, other);
            let a = input.as_boolean();
            use arrow_arith::boolean::*;
            let r = match *op {
                0 => and(a, &o),
                1 => or(a, &o),
                2 => and_kleene(a, &o),
                3 => or_kleene(a, &o),
                _ => and_not(a, &o),
            };
            r.map(|b| Arc::new(b) as ArrayRef)
        }
        Stage::Not => arrow_arith::boolean::not(input.as_boolean()).map(|b| Arc::new(b) as ArrayRef),
        Stage::Sort(d, nf, limit) => {
            let o = Some(SortOptions { descending: *d, nulls_first: *nf });
            match limit {
                Some(l) => sort_limit(input.as_ref(), o, Some(*l)),
                None => sort(input.as_ref(), o),
            }
        }
        Stage::RowRoundtrip(d, nf) => {
            let conv = RowConverter::new(vec![SortField::new_with_options(input.data_type().clone(), SortOptions { descending: *d, nulls_first: *nf })])?;
            let rows = conv.convert_columns(&[input.clone()])?;
            let mut out = conv.convert_rows(rows.iter())?;
            Ok(out.remove(0))
        }
        Stage::Length => arrow_string::length::length(input.as_ref()),
        Stage::Substring(s, l) => arrow_string::substring::substring(input.as_ref(), *s, *l),
        Stage::Like(op, pat) => {
            let p = Scalar::new(match input.data_type() {
                DataType::LargeUtf8 => Arc::new(LargeStringArray::from(vec![pat.as_str()])) as ArrayRef,
                DataType::Utf8View => Arc::new(StringViewArray::from(vec![pat.as_str()])) as ArrayRef,
                _ => Arc::new(StringArray::from(vec![pat.as_str()])) as ArrayRef,
            });
            use arrow_string::like::*;
            let r = match *op {
                0 => like(input, &p),
                1 => ilike(input, &p),
                2 => nlike(input, &p),
                3 => starts_with(input, &p),
                4 => ends_with(input, &p),
                _ => contains(input, &p),
            };
            r.map(|b| Arc::new(b) as ArrayRef)
        }
        Stage::Format => {
            let f = arrow_cast::display::ArrayFormatter::try_new(input.as_ref(), &arrow_cast::display::FormatOptions::default())?;
            let mut v: Vec<Option<String>> = vec![];
            for i in 0..input.len() {
                v.push(Some(f.value(i).try_to_string()?));
            }
            Ok(Arc::new(StringArray::from(v)) as ArrayRef)
        }
    }
}

/// documented output type / length of a stage, when determined by the inputs
pub fn expected_shape(st: &Stage, in_type: &DataType, in_len: usize) -> (Option<DataType>, Option<usize>) {
    match st {
        Stage::Filter(p) => (Some(in_type.clone()), Some(p.iter().filter(|x| **x == Some(true)).count())),
        Stage::Take(i) => (Some(in_type.clone()), Some(i.len())),
        Stage::Slice(_, l) => (Some(in_type.clone()), Some(*l)),
        Stage::ConcatSelf(o) => (Some(in_type.clone()), Some(in_len + o.len())),
        Stage::Interleave(_, i) => (Some(in_type.clone()), Some(i.len())),
        Stage::Nullif(_) | Stage::Shift(_) | Stage::Zip(..) => (Some(in_type.clone()), Some(in_len)),
        Stage::Cast(to, _) => (Some(to.clone()), Some(in_len)),
        Stage::Arith(..) | Stage::Neg(_) => (None, Some(in_len)),
        Stage::Cmp(..) | Stage::IsNull(_) | Stage::BoolBin(..) | Stage::Not | Stage::Like(..) => (Some(DataType::Boolean), Some(in_len)),
        Stage::Sort(_, _, l) => (Some(in_type.clone()), Some(l.map(|l| l.min(in_len)).unwrap_or(in_len))),
        Stage::RowRoundtrip(..) => (None, Some(in_len)),
        Stage::Length => (None, Some(in_len)),
        Stage::Substring(..) => (Some(in_type.clone()), Some(in_len)),
        Stage::Format => (Some(DataType::Utf8), Some(in_len)),
    }
}
