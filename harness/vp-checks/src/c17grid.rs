//! C17 support grids (committed data) and the grid / findings sub-checks.
//!
//! The grids were determined once on the unchanged tree (probe over every sample type, both nullabilities) and
//! reviewed against arrow-csv/src/reader/mod.rs `parse`, arrow-json/src/writer/encoder.rs `make_encoder`,
//! arrow-json/src/reader/mod.rs `make_decoder`, arrow-avro/src/schema.rs `datatype_to_avro` and
//! arrow-avro/src/writer/encoder.rs. A rejection inside the grid is a violation; a type outside must keep being
//! rejected cleanly (Err from the writer or the reader, never a panic).
use super::g::*;
use super::io::*;
use super::*;

#[derive(Clone, Copy, Debug, PartialEq)]
pub enum G {
    /// writer accepts, reader accepts, values round-trip (Avro: modulo the documented read-back mapping)
    Rt,
    /// the writer or the reader returns Err
    Rej,
    /// writer accepts, reader returns Err on the writer's text (representation mismatch; see findings)
    Mis,
    /// both sides accept but values change: known finding, excluded from generators, reproduced in `findings`
    Fnd,
    /// accepted for a sub-range of values only (documented), not asserted either way here
    Part,
}
use G::*;

/// (type key, CSV, JSON, Avro)
pub const GRID: &[(&str, G, G, G)] = &[
    ("Null", Rt, Rt, Rt),
    ("Boolean", Rt, Rt, Rt),
    ("Int8", Rt, Rt, Rt),
    ("Int16", Rt, Rt, Rt),
    ("Int32", Rt, Rt, Rt),
    ("Int64", Rt, Rt, Rt),
    ("UInt8", Rt, Rt, Rt),
    ("UInt16", Rt, Rt, Rt),
    ("UInt32", Rt, Rt, Rt),
    ("UInt64", Rt, Rt, Part), // Avro long: values above i64::MAX are rejected by the writer (documented message)
    ("Float16", Rt, Rt, Rt),
    ("Float32", Rt, Rt, Rt),
    ("Float64", Rt, Rt, Rt),
    ("Decimal32", Rt, Rt, Rej), // Avro: needs cargo feature small_decimals
    ("Decimal64", Rt, Rt, Rej),
    ("Decimal128", Rt, Rt, Rt),
    ("Decimal256", Rt, Rt, Rt),
    ("Decimal(negative scale)", Fnd, Fnd, Rej),
    ("Date32", Rt, Rt, Rt),
    ("Date64", Rt, Rt, Rt),
    ("Time32(s)", Rt, Rt, Rt),
    ("Time32(ms)", Rt, Rt, Rt),
    ("Time64(us)", Rt, Rt, Rt),
    ("Time64(ns)", Rt, Rt, Rt),
    ("Timestamp(s)", Rt, Rt, Rt),
    ("Timestamp(ms)", Rt, Rt, Rt),
    ("Timestamp(us)", Rt, Rt, Rt),
    ("Timestamp(ns)", Rt, Rt, Rt),
    ("Timestamp(s,tz)", Rt, Rt, Rt),
    ("Timestamp(ms,tz)", Rt, Rt, Rt),
    ("Timestamp(us,tz)", Rt, Rt, Rt),
    ("Timestamp(ns,tz)", Rt, Rt, Rt),
    ("Duration", Rej, Mis, Rt),
    ("Interval(YearMonth)", Rej, Rej, Part), // Avro duration: non-negative values only
    ("Interval(DayTime)", Rej, Rej, Part),
    ("Interval(MonthDayNano)", Rej, Rej, Part),
    ("Utf8", Rt, Rt, Rt),
    ("LargeUtf8", Rej, Rt, Rt),
    ("Utf8View", Rt, Rt, Rt),
    ("Binary", Rej, Rt, Rt),
    ("LargeBinary", Rej, Rt, Rt),
    ("BinaryView", Rej, Rt, Rt),
    ("FixedSizeBinary", Rej, Rt, Rt),
    ("FixedSizeBinary(0)", Rej, Rt, Fnd),
    ("List", Rej, Rt, Rt),
    ("LargeList", Rej, Rt, Rt),
    ("ListView", Rej, Rt, Rt),
    ("LargeListView", Rej, Rt, Rt),
    ("FixedSizeList", Rej, Rt, Rt),
    ("Struct", Rej, Rt, Rt),
    ("Map(Utf8 key)", Rej, Rt, Rt),
    ("Map(LargeUtf8 key)", Rej, Rt, Rt),
    ("Map(Int32 key)", Rej, Rej, Rej),
    ("Map(sorted)", Rej, Rej, Rt), // Avro reader returns it unsorted
    ("Dictionary(Int8,Utf8)", Rt, Rej, Rej),
    ("Dictionary(Int16,Utf8)", Rt, Rej, Rej),
    ("Dictionary(Int32,Utf8)", Rt, Rej, Rej), // Avro: only with avro.enum.symbols metadata (avro_roundtrip "enum")
    ("Dictionary(Int64,Utf8)", Rt, Rej, Rej),
    ("Dictionary(UInt8,Utf8)", Rt, Rej, Rej),
    ("Dictionary(UInt16,Utf8)", Rt, Rej, Rej),
    ("Dictionary(UInt32,Utf8)", Rt, Rej, Rej),
    ("Dictionary(UInt64,Utf8)", Rt, Rej, Rej),
    ("Dictionary(Int32,Int64)", Rej, Rej, Rej),
    ("Dictionary(Int32,LargeUtf8)", Rej, Rej, Rej),
    ("RunEndEncoded", Rej, Rt, Rt),
    ("Union(sparse)", Rej, Rej, Rej),
];

pub fn grid_key(ty: &LType) -> String {
    use LType::*;
    let u = |u: &Unit| match u {
        Unit::S => "s",
        Unit::Ms => "ms",
        Unit::Us => "us",
        Unit::Ns => "ns",
    };
    match ty {
        Decimal { s, .. } if *s < 0 => "Decimal(negative scale)".into(),
        Decimal { width, .. } => format!("Decimal{}", width),
        Time32(x) => format!("Time32({})", u(x)),
        Time64(x) => format!("Time64({})", u(x)),
        Timestamp(x, None) => format!("Timestamp({})", u(x)),
        Timestamp(x, Some(_)) => format!("Timestamp({},tz)", u(x)),
        Duration(_) => "Duration".into(),
        FixedBinary(0) => "FixedSizeBinary(0)".into(),
        FixedBinary(_) => "FixedSizeBinary".into(),
        List(_, ListEnc::O32) => "List".into(),
        List(_, ListEnc::O64) => "LargeList".into(),
        List(_, ListEnc::V32) => "ListView".into(),
        List(_, ListEnc::V64) => "LargeListView".into(),
        FixedList(..) => "FixedSizeList".into(),
        Struct(_) => "Struct".into(),
        Map { sorted: true, .. } => "Map(sorted)".into(),
        Map { key, .. } => format!("Map({} key)", key.ty.arrow()),
        Dict { kbits, ksigned, value } => format!("Dictionary({},{})", int_dt(*kbits, *ksigned), value.arrow()),
        Ree { .. } => "RunEndEncoded".into(),
        Union { dense, .. } => if *dense { "Union(dense)".into() } else { "Union(sparse)".into() },
        t => format!("{}", t.arrow()),
    }
}

pub fn grid_of(key: &str) -> Option<(G, G, G)> {
    GRID.iter().find(|r| r.0 == key).map(|r| (r.1, r.2, r.3))
}

pub fn samples() -> Vec<LType> {
    use LType::*;
    let mut v = vec![Null, Bool];
    for bits in [8u8, 16, 32, 64] {
        v.push(Int { bits, signed: true });
        v.push(Int { bits, signed: false });
    }
    v.extend([F16, F32, F64]);
    for (w, p, s) in [(32u16, 9u8, 2i8), (64, 18, 4), (128, 38, 10), (256, 76, 20), (128, 10, 0), (128, 5, 5), (256, 20, 3), (128, 10, -2), (256, 40, -3)] {
        v.push(Decimal { width: w, p, s });
    }
    v.extend([Date32, Date64, Time32(Unit::S), Time32(Unit::Ms), Time64(Unit::Us), Time64(Unit::Ns)]);
    for u in [Unit::S, Unit::Ms, Unit::Us, Unit::Ns] {
        v.push(Timestamp(u.clone(), None));
        v.push(Timestamp(u.clone(), Some("UTC".into())));
        v.push(Timestamp(u.clone(), Some("+05:30".into())));
        v.push(Duration(u));
    }
    v.extend([IntervalYM, IntervalDT, IntervalMDN]);
    for e in [Enc::O32, Enc::O64, Enc::View] {
        v.push(Utf8(e));
        v.push(Binary(e));
    }
    v.extend([FixedBinary(4), FixedBinary(16), FixedBinary(0)]);
    let item = |ty: LType, n: bool| Box::new(LField { name: "item".into(), ty, nullable: n });
    let i32t = Int { bits: 32, signed: true };
    for e in [ListEnc::O32, ListEnc::O64, ListEnc::V32, ListEnc::V64] {
        v.push(List(item(i32t.clone(), true), e));
    }
    v.push(List(item(Utf8(Enc::O32), false), ListEnc::O32));
    v.push(FixedList(item(Int { bits: 64, signed: true }, true), 2));
    v.push(FixedList(item(Int { bits: 64, signed: true }, true), 0));
    v.push(Struct(vec![LField::new("a", i32t.clone(), true), LField::new("b", Utf8(Enc::O32), false)]));
    v.push(Map { key: Box::new(LField::new("key", Utf8(Enc::O32), false)), val: Box::new(LField::new("value", i32t.clone(), true)), sorted: false });
    v.push(Map { key: Box::new(LField::new("key", Utf8(Enc::O64), false)), val: Box::new(LField::new("value", Utf8(Enc::O32), false)), sorted: false });
    v.push(Map { key: Box::new(LField::new("key", i32t.clone(), false)), val: Box::new(LField::new("value", i32t.clone(), true)), sorted: false });
    v.push(Map { key: Box::new(LField::new("key", Utf8(Enc::O32), false)), val: Box::new(LField::new("value", i32t.clone(), true)), sorted: true });
    for (kb, ks) in [(8u8, true), (16, true), (32, true), (64, true), (8, false), (16, false), (32, false), (64, false)] {
        v.push(Dict { kbits: kb, ksigned: ks, value: Box::new(Utf8(Enc::O32)) });
    }
    v.push(Dict { kbits: 32, ksigned: true, value: Box::new(Int { bits: 64, signed: true }) });
    v.push(Dict { kbits: 32, ksigned: true, value: Box::new(Utf8(Enc::O64)) });
    for rb in [16u8, 32, 64] {
        v.push(Ree { rbits: rb, value: Box::new(LField::new("values", Utf8(Enc::O32), true)) });
    }
    v.push(Ree { rbits: 32, value: Box::new(LField::new("values", i32t.clone(), true)) });
    v.push(Union { dense: false, fields: vec![(0, LField::new("a", i32t.clone(), true)), (1, LField::new("b", Utf8(Enc::O32), true))] });
    v
}

pub fn grid_cases() -> u64 {
    (samples().len() * 3 * 2) as u64
}

pub fn dump() {
    for s in samples() {
        println!("{:40} {:?}", grid_key(&s), grid_of(&grid_key(&s)));
    }
}

/// one column `c0` of `ty`, 7 rows, values restricted per format the same way the round-trip sub-checks do
fn grid_batch(t: &mut Tape, ty: &LType, nullable: bool, fmt: usize) -> (Vec<LField>, SchemaRef, LBatch, RecordBatch) {
    let fields = vec![LField { name: "c0".into(), ty: ty.clone(), nullable }];
    let schema = schema_of(&fields, None);
    let rows = 7;
    let vcfg = ValCfg { nan: fmt == 2, max_str: 8, max_list: 3, ..ValCfg::default() };
    let mut raw = gen_lbatch(t, &fields, rows, &vcfg);
    if !matches!(ty, LType::Null) && raw[0][0].is_null() {
        // at least one real value, so that a representation mismatch cannot hide behind an all-null column
        raw[0][0] = gen_nonnull(t, ty, &vcfg);
    }
    let col: Vec<LValue> = raw[0]
        .iter()
        .map(|v| {
            transform(ty, v, &mut |lt, x| match (fmt, lt, x) {
                // CSV: default null sentinel is the empty string
                (0, LType::Utf8(_), LValue::Str(s)) if s.is_empty() => LValue::Str("e".into()),
                (1, _, _) => finite_leaf(lt, x),
                (2, _, _) => avro_fix_leaf(lt, x),
                _ => x.clone(),
            })
        })
        .collect();
    let cols = vec![col];
    let b = realise_batch(t, &schema, &fields, &cols, rows, &Lay::plain());
    (fields, schema, cols, b)
}

pub fn sub_grid(c: &mut Case) -> CaseResult {
    let _ = c.tape.u64();
    let ss = samples();
    let i = (c.index as usize) % ss.len();
    let fmt = (c.index as usize / ss.len()) % 3;
    let nullable = (c.index as usize / ss.len() / 3) % 2 == 0;
    let ty = ss[i].clone();
    let key = grid_key(&ty);
    let fname = ["csv", "json", "avro"][fmt];
    let Some(g) = grid_of(&key) else { fail!("grid:unknown-key", "sample type {} has no grid row", key) };
    let g = [g.0, g.1, g.2][fmt];
    // Avro "Part" rows: the sample values are restricted to the documented encodable range (avro_fix_leaf)
    let g = if fmt == 2 && g == Part { Rt } else { g };
    c.class(format!("{}:{:?}", fname, g));
    c.describe(json!({"type": format!("{}", ty.arrow()), "key": key, "format": fname, "nullable": nullable, "grid": format!("{:?}", g)}));
    if matches!(ty, LType::Null | LType::Union { .. }) && !nullable {
        return Ok(());
    }
    if g == Fnd || g == Part {
        c.exclude(&format!("grid-{}-{}", fname, key));
        return Ok(());
    }
    c.nontrivial();
    let (fields, schema, cols, b) = grid_batch(&mut c.tape, &ty, nullable, fmt);
    let res: Result<(SchemaRef, LBatch), (bool, String)> = no_panic(&format!("grid:{}", fname), || match fmt {
        0 => {
            let o = CsvOpts::default();
            let bytes = csv_write(&[b.clone()], &o).map_err(|e| (false, e))?;
            let out = csv_read(&bytes, schema.clone(), &o, 1024).map_err(|e| (true, e))?;
            Ok(collect(&schema, &out))
        }
        1 => {
            let o = JsonOpts { explicit_nulls: true, ..JsonOpts::default() };
            let bytes = json_write(&[b.clone()], &o).map_err(|e| (false, e))?;
            let out = json_read(&bytes, schema.clone(), &o, 1024).map_err(|e| (true, e))?;
            Ok(collect(&schema, &out))
        }
        _ => {
            let o = AvroOpts::default();
            let bytes = avro_write_ocf(schema.as_ref(), &[b.clone()], &o).map_err(|e| (false, e))?;
            let (s, out) = avro_read_ocf(&bytes, &o, 1024).map_err(|e| (true, e))?;
            Ok(collect(&s, &out))
        }
    })?;
    c.evals(1);
    match (g, res) {
        (Rt, Err((rd, e))) => fail!(format!("grid:{}:inside-rejected", fname), "{} {} is inside the committed grid but the {} rejected it: {}", fname, key, if rd { "reader" } else { "writer" }, e),
        (Rt, Ok((s, got))) => {
            let (want_ty, want): (LType, LBatch) = if fmt == 2 { (rb_type(&ty, false), vec![cols[0].iter().map(|v| rb_value(&ty, v)).collect()]) } else { (ty.clone(), cols.clone()) };
            let got_ty = LType::from_arrow(s.field(0).data_type());
            ensure!(got_ty.as_ref() == Some(&want_ty), format!("grid:{}:type", fname), "{} {}: reader returned type {} expected {}", fname, key, s.field(0).data_type(), want_ty.arrow());
            ensure!(s.field(0).is_nullable() == nullable, format!("grid:{}:nullable", fname), "{} {}: nullability changed", fname, key);
            if let Some(m) = first_mismatch(&fields, &got, &want) {
                fail!(format!("grid:{}:roundtrip", fname), "{} {}: {}", fname, key, m);
            }
        }
        (Rej, Ok(_)) => fail!(format!("grid:{}:outside-accepted", fname), "{} {} is outside the committed grid but writer and reader accepted it (update the grid after review)", fname, key),
        (Rej, Err(_)) => {}
        (Mis, Err((true, _))) => {}
        (Mis, Err((false, e))) => fail!(format!("grid:{}:mismatch-writer", fname), "{} {}: writer now rejects: {}", fname, key, e),
        (Mis, Ok(_)) => fail!(format!("grid:{}:outside-accepted", fname), "{} {}: reader now accepts the writer's text (update the grid after review)", fname, key),
        _ => {}
    }
    Ok(())
}

// ------------------------------------------------------------------------------------------------ findings
pub const FINDINGS: u64 = 14;

/// Hand-written reproductions of the suspected defects found while building this check (index = finding).
/// Signatures are listed (status open) in known_findings.json; generators exclude exactly these shapes.
pub fn sub_findings(c: &mut Case) -> CaseResult {
    use arrow_array::*;
    let _ = c.tape.u64();
    let k = c.index;
    c.describe(json!({"finding_case": k}));
    c.nontrivial();
    c.evals(1);
    let dec = |scale: i8| -> (SchemaRef, RecordBatch) {
        let schema = Arc::new(Schema::new(vec![Field::new("d", DataType::Decimal128(10, scale), false)]));
        let a = Decimal128Array::from(vec![9i128, -12]).with_precision_and_scale(10, scale).unwrap();
        (schema.clone(), RecordBatch::try_new(schema, vec![Arc::new(a) as ArrayRef]).unwrap())
    };
    match k {
        // negative-scale decimals: the writers print the scaled value ("900"), parse_decimal ignores a negative scale
        0 => {
            let (schema, b) = dec(-2);
            let o = CsvOpts::default();
            let bytes = csv_write(&[b], &o).map_err(|e| Fail::new("csv:decimal-negative-scale", e))?;
            let out = match no_panic("csv:read", || csv_read(&bytes, schema.clone(), &o, 1024))? {
                Ok(o) => o,
                Err(e) => fail!("csv:decimal-negative-scale", "Decimal128(10,-2) [9,-12] written as {} cannot be read back: {}", text_preview(&bytes), e),
            };
            let got = collect(&schema, &out).1;
            ensure!(got[0] == vec![LValue::Int(9), LValue::Int(-12)], "csv:decimal-negative-scale", "Decimal128(10,-2) unscaled [9,-12] written as {} reads back as {:?}", text_preview(&bytes), got[0]);
        }
        1 => {
            let (schema, b) = dec(-2);
            let o = JsonOpts::default();
            let bytes = json_write(&[b], &o).map_err(|e| Fail::new("json:decimal-negative-scale", e))?;
            let out = match no_panic("json:read", || json_read(&bytes, schema.clone(), &o, 1024))? {
                Ok(o) => o,
                Err(e) => fail!("json:decimal-negative-scale", "Decimal128(10,-2) [9,-12] written as {} cannot be read back: {}", text_preview(&bytes), e),
            };
            let got = collect(&schema, &out).1;
            ensure!(got[0] == vec![LValue::Int(9), LValue::Int(-12)], "json:decimal-negative-scale", "Decimal128(10,-2) unscaled [9,-12] written as {} reads back as {:?}", text_preview(&bytes), got[0]);
        }
        // JSON Duration: written as ISO-8601 text, reader only parses integers
        2 => {
            let schema = Arc::new(Schema::new(vec![Field::new("d", DataType::Duration(arrow_schema::TimeUnit::Second), false)]));
            let b = RecordBatch::try_new(schema.clone(), vec![Arc::new(DurationSecondArray::from(vec![9i64, 61])) as ArrayRef]).unwrap();
            let o = JsonOpts::default();
            let bytes = json_write(&[b], &o).map_err(|e| Fail::new("json:duration-roundtrip", e))?;
            let out = match no_panic("json:read", || json_read(&bytes, schema.clone(), &o, 1024))? {
                Ok(o) => o,
                Err(e) => fail!("json:duration-roundtrip", "Duration(s) [9,61] written as {} is rejected by the JSON reader given the same schema: {}", text_preview(&bytes), e),
            };
            let got = collect(&schema, &out).1;
            ensure!(got[0] == vec![LValue::Int(9), LValue::Int(61)], "json:duration-roundtrip", "Duration(s) [9,61] reads back as {:?}", got[0]);
        }
        // Avro OCF: records that encode to zero bytes are dropped by the reader
        3 => {
            let schema = Arc::new(Schema::new(vec![Field::new("f", DataType::FixedSizeBinary(0), false)]));
            let a = FixedSizeBinaryArray::try_new(0, arrow_buffer::Buffer::from_vec(Vec::<u8>::new()), None).ok();
            let a = match a {
                Some(a) if a.len() == 3 => a,
                _ => FixedSizeBinaryArray::try_from_iter(vec![Vec::<u8>::new(), vec![], vec![]].into_iter()).map_err(|e| Fail::new("harness:fsb0", e.to_string()))?,
            };
            let b = RecordBatch::try_new(schema.clone(), vec![Arc::new(a) as ArrayRef]).map_err(|e| Fail::new("harness:fsb0", e.to_string()))?;
            ensure!(b.num_rows() == 3, "harness:fsb0", "could not build a 3-row FixedSizeBinary(0) batch");
            let o = AvroOpts::default();
            let bytes = avro_write_ocf(schema.as_ref(), &[b], &o).map_err(|e| Fail::new("avro:ocf-zero-width-rows-lost", e))?;
            let (_, out) = no_panic("avro:read", || avro_read_ocf(&bytes, &o, 1024))?.map_err(|e| Fail::new("avro:ocf-zero-width-rows-lost", e))?;
            let n: usize = out.iter().map(|b| b.num_rows()).sum();
            ensure!(n == 3, "avro:ocf-zero-width-rows-lost", "OCF file with 3 records of a non-nullable FixedSizeBinary(0) column (block count 3, 0 data bytes) reads back {} rows", n);
        }
        // Avro: nullable Null column becomes the union ["null","null"], which the Avro specification forbids
        4 => {
            let schema = Schema::new(vec![Field::new("n", DataType::Null, true)]);
            let js = avro_schema_json(&schema).map_err(|e| Fail::new("avro:null-null-union", e))?;
            ensure!(!js.contains("[\"null\",\"null\"]"), "avro:null-null-union", "arrow-avro converts a nullable Null field to the union [\"null\",\"null\"] (duplicate branch, invalid per Avro spec; apache-avro: {:?}): {}", apache_avro::Schema::parse_str(&js).err().map(|e| e.to_string()), js);
        }
        // CSV: with double_quote=false the escape character itself is written unescaped
        6 => {
            let schema = Arc::new(Schema::new(vec![Field::new("s", DataType::Utf8, false), Field::new("i", DataType::Int32, false)]));
            let b = RecordBatch::try_new(schema.clone(), vec![Arc::new(StringArray::from(vec!["a\\b", "x\\"])) as ArrayRef, Arc::new(Int32Array::from(vec![1, 2])) as ArrayRef]).unwrap();
            let o = CsvOpts { double_quote: false, escape: b'\\', ..CsvOpts::default() };
            let bytes = csv_write(&[b], &o).map_err(|e| Fail::new("csv:escape-char-unescaped", e))?;
            let out = match no_panic("csv:read", || csv_read(&bytes, schema.clone(), &o, 1024))? {
                Ok(o) => o,
                Err(e) => fail!("csv:escape-char-unescaped", "strings [a\\b, x\\] written with double_quote=false, escape=\\ as {} cannot be read back with the same escape: {}", text_preview(&bytes), e),
            };
            let got = collect(&schema, &out).1;
            ensure!(got[0] == vec![LValue::Str("a\\b".into()), LValue::Str("x\\".into())], "csv:escape-char-unescaped", "strings [a\\b, x\\] written as {} read back as {:?}", text_preview(&bytes), got[0]);
        }
        // JSON reader: null row of a FixedSizeList whose item is a non-nullable nested type
        7 => {
            let inner = Arc::new(Field::new("item", DataType::Int32, false));
            let item = Arc::new(Field::new("item", DataType::FixedSizeList(inner.clone(), 2), false));
            let schema = Arc::new(Schema::new(vec![Field::new("l", DataType::FixedSizeList(item.clone(), 1), true)]));
            let values = FixedSizeListArray::try_new(inner, 2, Arc::new(Int32Array::from(vec![1, 2, 0, 0])), None).unwrap();
            let a = FixedSizeListArray::try_new(item, 1, Arc::new(values), Some(arrow_buffer::NullBuffer::from(vec![true, false]))).unwrap();
            let b = RecordBatch::try_new(schema.clone(), vec![Arc::new(a) as ArrayRef]).unwrap();
            let o = JsonOpts { explicit_nulls: true, ..JsonOpts::default() };
            let bytes = json_write(&[b], &o).map_err(|e| Fail::new("json:fixedsizelist-null-nested-item", e))?;
            let out = match no_panic("json:read", || json_read(&bytes, schema.clone(), &o, 1024))? {
                Ok(o) => o,
                Err(e) => fail!("json:fixedsizelist-null-nested-item", "nullable FixedSizeList(1 x non-null FixedSizeList(2 x Int32)) [[[1,2]], null] written as {} is rejected by the reader: {}", text_preview(&bytes), e),
            };
            let got = collect(&schema, &out).1;
            ensure!(got[0].len() == 2 && got[0][1].is_null(), "json:fixedsizelist-null-nested-item", "reads back as {:?}", got[0]);
        }
        // Avro OCF writer: a user-supplied avro.schema is used for the body but not written to the header
        8 => {
            let js = r#"{"type":"record","name":"topLevelRecord","fields":[{"name":"c0","type":["boolean","null"]}]}"#;
            let md = HashMap::from([(arrow_avro::schema::SCHEMA_METADATA_KEY.to_string(), js.to_string())]);
            let schema = Arc::new(Schema::new_with_metadata(vec![Field::new("c0", DataType::Boolean, true)], md));
            let b = RecordBatch::try_new(schema.clone(), vec![Arc::new(BooleanArray::from(vec![Some(true)])) as ArrayRef]).unwrap();
            let bytes = avro_write_ocf(schema.as_ref(), &[b], &AvroOpts::default()).map_err(|e| Fail::new("avro:ocf-custom-schema-header", e))?;
            let rd = arrow_avro::reader::ReaderBuilder::new().build(std::io::Cursor::new(bytes.clone())).map_err(|e| Fail::new("avro:ocf-custom-schema-header", e.to_string()))?;
            let hdr = rd.avro_header().get(arrow_avro::schema::SCHEMA_METADATA_KEY).map(|x| String::from_utf8_lossy(x).to_string()).unwrap_or_default();
            let a: serde_json::Value = serde_json::from_str(&hdr).unwrap_or(serde_json::Value::Null);
            let w: serde_json::Value = serde_json::from_str(js).unwrap();
            ensure!(a == w, "avro:ocf-custom-schema-header", "WriterBuilder documents that an avro.schema metadata entry is used verbatim; the record body is encoded with it ({}) but the OCF header advertises {} — the file is mis-decoded by every reader (block bytes {:?})", js, hdr, &bytes[bytes.len().saturating_sub(20)..bytes.len() - 16]);
        }
        // Avro OCF reader: a block whose records need fewer bytes than the block size makes Reader::next spin forever
        9 => {
            let js = r#"{"type":"record","name":"r","fields":[{"name":"x","type":"int"}]}"#;
            let mut f: Vec<u8> = b"Obj\x01".to_vec();
            let put_bytes = |f: &mut Vec<u8>, b: &[u8]| {
                f.push((b.len() as u8) << 1); // zig-zag, lengths < 64
                f.extend_from_slice(b);
            };
            f.push(4); // 2 metadata entries
            put_bytes(&mut f, b"avro.schema");
            f.push(((js.len() as u32) << 1 & 0x7f) as u8 | 0x80);
            f.push(((js.len() as u32) << 1 >> 7) as u8);
            f.extend_from_slice(js.as_bytes());
            put_bytes(&mut f, b"avro.codec");
            put_bytes(&mut f, b"null");
            f.push(0);
            let sync = [7u8; 16];
            f.extend_from_slice(&sync);
            f.extend_from_slice(&[2, 4, 2, 2]); // 1 record, 2 bytes of data: int 1 + one surplus byte
            f.extend_from_slice(&sync);
            let (tx, rx) = std::sync::mpsc::channel();
            std::thread::spawn(move || {
                let r = catch(|| avro_read_ocf_inner(&f, &AvroOpts::default(), 1024).map(|x| x.1.iter().map(|b| b.num_rows()).sum::<usize>()));
                let _ = tx.send(match r {
                    Ok(x) => format!("{:?}", x),
                    Err(p) => format!("panic {}", p.msg),
                });
            });
            match rx.recv_timeout(std::time::Duration::from_secs(3)) {
                Ok(_) => {}
                Err(_) => fail!("avro:ocf-reader-spins-on-surplus-block-bytes", "arrow-avro Reader does not return within 3 s on a 1-record OCF block that carries one surplus byte (Reader::read loops: block_count reaches 0 while block_cursor < block_data.len())"),
            }
        }
        // Avro writer: nullable run-end encoded field nested in a struct gets two union tags
        10 => {
            let ree = LType::Ree { rbits: 16, value: Box::new(LField::new("values", LType::Utf8(Enc::O32), true)) };
            let fields = vec![LField::new("c0", LType::Struct(vec![LField::new("b", ree, true)]), false)];
            let schema = schema_of(&fields, None);
            let cols = vec![vec![LValue::Struct(vec![LValue::Str("ab".into())]), LValue::Struct(vec![LValue::Null])]];
            let mut t = Tape::new(vec![]);
            let b = realise_batch(&mut t, &schema, &fields, &cols, 2, &Lay::plain());
            let o = AvroOpts { framing: AvroFraming::SoeRabin, ..AvroOpts::default() };
            let js = avro_schema_json(schema.as_ref()).map_err(|e| Fail::new("avro:nested-nullable-runend", e))?;
            let msgs = avro_encode_rows(schema.as_ref(), &[b], &o).map_err(|e| Fail::new("avro:nested-nullable-runend", e))?;
            let got = no_panic("avro:decode", || avro_read_stream(&js, &msgs.concat(), &o, 8, &[]))?;
            let ok = matches!(&got, Ok((s, out)) if collect(s, out).1 == cols);
            ensure!(ok, "avro:nested-nullable-runend", "Struct{{b: RunEndEncoded<Utf8>?}} rows [{{ab}}, {{null}}] with Avro schema {} are encoded as {:?} (union tag written twice); reading them back gives {:?}", js, msgs.iter().map(|m| m[10..].to_vec()).collect::<Vec<_>>(), got.map(|x| x.1.iter().map(|b| format!("{:?}", extract_batch(b))).collect::<Vec<_>>()));
        }
        // Avro reader with_utf8_view(true): null strings come back as empty strings
        11 => {
            let schema = Arc::new(Schema::new(vec![Field::new("s", DataType::Utf8, true)]));
            let b = RecordBatch::try_new(schema.clone(), vec![Arc::new(StringArray::from(vec![Some("a"), None])) as ArrayRef]).unwrap();
            let o = AvroOpts { utf8view: true, ..AvroOpts::default() };
            let bytes = avro_write_ocf(schema.as_ref(), &[b], &o).map_err(|e| Fail::new("avro:utf8view-null-string", e))?;
            let (s, out) = no_panic("avro:read", || avro_read_ocf(&bytes, &o, 1024))?.map_err(|e| Fail::new("avro:utf8view-null-string", e))?;
            let got = collect(&s, &out).1;
            ensure!(got[0] == vec![LValue::Str("a".into()), LValue::Null], "avro:utf8view-null-string", "nullable string column [\"a\", null] read with with_utf8_view(true) gives {:?} (type {})", got[0], s.field(0).data_type());
        }
        // Avro writer: Map whose values child is a sliced BooleanArray (Array::offset() != 0) is written from wrong positions
        12 => {
            let keys = StringArray::from(vec!["a", "b"]);
            let vals = BooleanArray::from(vec![true, false, true]).slice(1, 2); // [false, true]
            let kf = Arc::new(Field::new("key", DataType::Utf8, false));
            let vf = Arc::new(Field::new("value", DataType::Boolean, false));
            let entries = StructArray::try_new(vec![kf, vf].into(), vec![Arc::new(keys) as ArrayRef, Arc::new(vals) as ArrayRef], None).unwrap();
            let ef = Arc::new(Field::new("entries", entries.data_type().clone(), false));
            let map = MapArray::try_new(ef, arrow_buffer::OffsetBuffer::new(vec![0i32, 2].into()), entries, None, false).unwrap();
            let schema = Arc::new(Schema::new(vec![Field::new("m", map.data_type().clone(), false)]));
            let b = RecordBatch::try_new(schema.clone(), vec![Arc::new(map) as ArrayRef]).unwrap();
            let want = extract_batch(&b);
            let o = AvroOpts::default();
            let bytes = avro_write_ocf(schema.as_ref(), &[b], &o).map_err(|e| Fail::new("avro:map-values-offset", e))?;
            let (s, out) = no_panic("avro:read", || avro_read_ocf(&bytes, &o, 1024))?.map_err(|e| Fail::new("avro:map-values-offset", e))?;
            let got = collect(&s, &out).1;
            ensure!(got == want, "avro:map-values-offset", "Map {{a:false,b:true}} whose values are BooleanArray[true,false,true].slice(1,2) is written as {:?} (MapEncoder subtracts values().offset() from the entry index)", got[0]);
        }
        // Avro writer: sliced RunArray
        13 => {
            let ree: Int32RunArray = vec![Some("a"), Some("a"), Some("b"), Some("b"), Some("c")].into_iter().collect();
            let sl = ree.slice(2, 3);
            let schema = Arc::new(Schema::new(vec![Field::new("r", sl.data_type().clone(), true)]));
            let b = RecordBatch::try_new(schema.clone(), vec![Arc::new(sl) as ArrayRef]).unwrap();
            let want = extract_batch(&b);
            let o = AvroOpts::default();
            let bytes = avro_write_ocf(schema.as_ref(), &[b], &o).map_err(|e| Fail::new("avro:sliced-runend", e))?;
            let (s, out) = no_panic("avro:read", || avro_read_ocf(&bytes, &o, 1024))?.map_err(|e| Fail::new("avro:sliced-runend", e))?;
            let got = collect(&s, &out).1;
            ensure!(got == want, "avro:sliced-runend", "RunArray [a,a,b,b,c].slice(2,3) = {:?} is written as {:?}", want[0], got[0]);
        }
        // Avro single-object stream: a trailing message whose body is zero bytes long is not counted
        _ => {
            let schema = Arc::new(Schema::new(vec![Field::new("f", DataType::FixedSizeBinary(0), false)]));
            let a = FixedSizeBinaryArray::try_from_iter(vec![Vec::<u8>::new(), vec![], vec![]].into_iter()).map_err(|e| Fail::new("harness:fsb0", e.to_string()))?;
            let b = RecordBatch::try_new(schema.clone(), vec![Arc::new(a) as ArrayRef]).map_err(|e| Fail::new("harness:fsb0", e.to_string()))?;
            let o = AvroOpts { framing: AvroFraming::SoeRabin, ..AvroOpts::default() };
            let bytes = avro_write_stream(schema.as_ref(), &[b], &o).map_err(|e| Fail::new("avro:soe-zero-width-last-row-lost", e))?;
            let js = avro_schema_json(schema.as_ref()).map_err(|e| Fail::new("avro:soe-zero-width-last-row-lost", e))?;
            let (_, out) = no_panic("avro:read", || avro_read_stream(&js, &bytes, &o, 1024, &[]))?.map_err(|e| Fail::new("avro:soe-zero-width-last-row-lost", e))?;
            let n: usize = out.iter().map(|b| b.num_rows()).sum();
            ensure!(n == 3, "avro:soe-zero-width-last-row-lost", "3 single-object messages with zero-byte bodies decode to {} rows", n);
        }
    }
    Ok(())
}
