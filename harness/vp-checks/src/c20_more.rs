//! C20: starts_with / ends_with / contains / eq_ignore_ascii_case and the regexp kernels.
use super::r::*;
use super::{check_bool_call, mk, Mode};
use arrow_array::cast::AsArray;
use arrow_array::*;
use arrow_schema::{ArrowError, DataType};
use arrow_string::like::{contains, ends_with, eq_ignore_ascii_case, starts_with};
use arrow_string::regexp::{regexp_is_match, regexp_is_match_scalar, regexp_match};
use regex::{Regex, RegexBuilder};
use serde_json::json;
use vp_engine::extract::extract;
use vp_engine::model::*;
use vp_engine::runner::*;
use vp_engine::tape::Tape;
use vp_engine::validate::check_valid;
use vp_engine::{ensure, fail};

// ------------------------------------------------------------------------------------------------ predicates
#[derive(Clone, Copy, Debug, PartialEq)]
enum Pred {
    Starts,
    Ends,
    Contains,
    EqIgnoreAscii,
}
impl Pred {
    fn name(&self) -> &'static str {
        match self {
            Pred::Starts => "starts_with",
            Pred::Ends => "ends_with",
            Pred::Contains => "contains",
            Pred::EqIgnoreAscii => "eq_ignore_ascii_case",
        }
    }
    fn eval(&self, h: &[u8], n: &[u8]) -> bool {
        match self {
            Pred::Starts => h.len() >= n.len() && &h[..n.len()] == n,
            Pred::Ends => h.len() >= n.len() && &h[h.len() - n.len()..] == n,
            Pred::Contains => n.is_empty() || (h.len() >= n.len() && (0..=h.len() - n.len()).any(|i| &h[i..i + n.len()] == n)),
            Pred::EqIgnoreAscii => h.eq_ignore_ascii_case(n),
        }
    }
    fn call(&self, l: &dyn Datum, r: &dyn Datum) -> Result<BooleanArray, ArrowError> {
        match self {
            Pred::Starts => starts_with(l, r),
            Pred::Ends => ends_with(l, r),
            Pred::Contains => contains(l, r),
            Pred::EqIgnoreAscii => eq_ignore_ascii_case(l, r),
        }
    }
}

fn showb(b: &Option<Vec<u8>>, string: bool) -> String {
    match b {
        None => "NULL".into(),
        Some(b) if string => format!("{:?}", String::from_utf8_lossy(b)),
        Some(b) => format!("{:02x?}", b),
    }
}

fn gen_bytes_val(t: &mut Tape) -> Vec<u8> {
    let n = gen_slen(t, true);
    let narrow = t.chance(120);
    const B: [u8; 8] = [0x61, 0x00, 0xff, 0x80, 0x62, 0xc3, 0xa9, 0x7f];
    let k = if narrow { 1 + t.below(2) } else { 8 };
    let base = t.below(8);
    (0..n).map(|_| B[(base + t.below(k)) % 8]).collect()
}

/// needle derived from a haystack value (prefix / suffix / infix / whole, possibly perturbed) or random
fn gen_needle(t: &mut Tape, hay: &[Option<Vec<u8>>], string: bool, prof: Prof) -> Vec<u8> {
    let cands: Vec<&Vec<u8>> = hay.iter().flatten().collect();
    if cands.is_empty() || t.chance(50) {
        return if string { gen_str(t, prof, false).into_bytes() } else { gen_bytes_val(t) };
    }
    let h = cands[t.below(cands.len())];
    // cut positions: char boundaries for strings, any byte for binary
    let cuts: Vec<usize> = if string { std::str::from_utf8(h).unwrap().char_indices().map(|x| x.0).chain([h.len()]).collect() } else { (0..=h.len()).collect() };
    let kind = t.below(5);
    let want_len = match t.below(6) {
        0 => h.len(),
        1 => 13 + t.below(6),
        2 => 5 + t.below(8),
        _ => t.below(5),
    };
    let pick_cut = |target: usize| -> usize { *cuts.iter().min_by_key(|c| (**c as i64 - target as i64).abs()).unwrap() };
    let mut n: Vec<u8> = match kind {
        0 => h[..pick_cut(want_len.min(h.len()))].to_vec(),
        1 => h[pick_cut(h.len().saturating_sub(want_len))..].to_vec(),
        2 => {
            let a = pick_cut(t.below(h.len() + 1));
            let b = pick_cut((a + want_len).min(h.len()));
            h[a.min(b)..b.max(a)].to_vec()
        }
        3 => h.clone(),
        _ => {
            // whole value with one extra char in front / at the end (longer than the haystack)
            let mut v = h.clone();
            if t.bool() {
                v.insert(0, b'a');
            } else {
                v.push(b'a');
            }
            v
        }
    };
    if t.chance(50) && !n.is_empty() {
        // perturb one byte (ASCII case flip for strings so that eq_ignore_ascii_case is exercised)
        let i = t.below(n.len());
        if string {
            if n[i].is_ascii_alphabetic() {
                n[i] ^= 0x20;
            } else if n[i].is_ascii() {
                n[i] = b'q';
            }
        } else {
            n[i] ^= 1 << t.below(8);
        }
    }
    n
}

pub fn sub_predicates(c: &mut Case) -> CaseResult {
    let t = &mut c.tape;
    let binary = t.chance(110);
    let string = !binary;
    let mode = match t.below(10) {
        0..=4 => Mode::ArrScalar,
        5..=7 => Mode::ArrArr,
        8 => Mode::ScalarArr,
        _ => Mode::ScalarScalar,
    };
    let prof = gen_prof(t);
    let n = gen_rows(t);
    let nh = if matches!(mode, Mode::ScalarArr | Mode::ScalarScalar) { 1 } else { n };
    let np = if matches!(mode, Mode::ArrScalar | Mode::ScalarScalar) { 1 } else { n };
    let hnull = gen_null_chance(t);
    let hay: Vec<Option<Vec<u8>>> = if string {
        gen_strcol(t, nh, prof, hnull, true).into_iter().map(|s| s.map(|s| s.into_bytes())).collect()
    } else {
        let use_pool = t.chance(110);
        let pool: Vec<Vec<u8>> = (0..1 + t.below(5)).map(|_| gen_bytes_val(t)).collect();
        (0..nh).map(|_| if hnull > 0 && t.chance(hnull) { None } else if use_pool { Some(t.pick(&pool).clone()) } else { Some(gen_bytes_val(t)) }).collect()
    };
    let pool: Vec<Vec<u8>> = (0..1 + t.below(4)).map(|_| gen_needle(t, &hay, string, prof)).collect();
    let pnull = if np == 1 { *t.pick(&[0u32, 0, 0, 30]) } else { gen_null_chance(t) };
    let ndl: Vec<Option<Vec<u8>>> = (0..np).map(|_| if pnull > 0 && t.chance(pnull) { None } else { Some(t.pick(&pool).clone()) }).collect();
    c.class(if binary { "binary" } else { "string" });
    c.class(mode.name());
    if ndl.iter().flatten().any(|x| x.len() > 4) {
        c.class("needle>4-bytes");
    }
    if ndl.iter().flatten().any(|x| x.len() > 12) {
        c.class("needle>12-bytes");
    }
    if hay.iter().flatten().any(|x| x.len() > 12) {
        c.class("haystack>12-bytes");
    }
    let hv = |i: usize| if matches!(mode, Mode::ScalarArr | Mode::ScalarScalar) { &hay[0] } else { &hay[i] };
    let pv = |i: usize| if matches!(mode, Mode::ArrScalar | Mode::ScalarScalar) { &ndl[0] } else { &ndl[i] };
    let rows = match mode {
        Mode::ArrScalar | Mode::ArrArr => hay.len(),
        Mode::ScalarArr => ndl.len(),
        Mode::ScalarScalar => 1,
    };
    c.describe(json!({"binary": binary, "mode": mode.name(), "hay": hay.iter().take(8).map(|x| showb(x, string)).collect::<Vec<_>>(), "needle": ndl.iter().take(8).map(|x| showb(x, string)).collect::<Vec<_>>(), "rows": rows}));
    let multibyte = hay.iter().flatten().any(|h| !h.is_ascii()) && ndl.iter().flatten().any(|h| !h.is_ascii());
    let to_l = |col: &[Option<Vec<u8>>]| -> Vec<LValue> {
        if string {
            col.iter().map(|x| x.as_ref().map(|b| LValue::Str(String::from_utf8(b.clone()).unwrap())).unwrap_or(LValue::Null)).collect()
        } else {
            bv(col)
        }
    };
    let preds: &[Pred] = if string { &[Pred::Starts, Pred::Ends, Pred::Contains, Pred::EqIgnoreAscii] } else { &[Pred::Starts, Pred::Ends, Pred::Contains] };
    let e0 = c.tape.below(3);
    let mut any_true = false;
    for k in 0..2 {
        let enc = ENCS[(e0 + k) % 3];
        let lrep = gen_rep(&mut c.tape, enc, 90);
        let rrep = gen_rep(&mut c.tape, enc, 70);
        let l = mk(&mut c.tape, &lrep.ty(binary), &to_l(&hay))?;
        let rr = mk(&mut c.tape, &rrep.ty(binary), &to_l(&ndl))?;
        // (fixed finding like-empty-dictionary-values: dictionaries without values are compared like every other operand)
        c.class(lrep.class());
        for p in preds {
            let want: Vec<Option<bool>> = (0..rows)
                .map(|i| match (hv(i), pv(i)) {
                    (Some(h), Some(n)) => Some(p.eval(h, n)),
                    _ => None,
                })
                .collect();
            if want.iter().any(|x| *x == Some(true)) && !matches!(p, Pred::EqIgnoreAscii) {
                any_true = true;
            }
            let info = |i: Option<usize>| match i {
                Some(i) => format!("{}({}, {}) [{} ∘ {}, {}]", p.name(), showb(hv(i), string), showb(pv(i), string), lrep.name(), rrep.name(), mode.name()),
                None => format!("[{} ∘ {}, {}]", lrep.name(), rrep.name(), mode.name()),
            };
            let f = || -> Result<BooleanArray, ArrowError> {
                match mode {
                    Mode::ArrScalar => p.call(&l, &Scalar::new(rr.clone())),
                    Mode::ArrArr => p.call(&l, &rr),
                    Mode::ScalarArr => p.call(&Scalar::new(l.clone()), &rr),
                    Mode::ScalarScalar => p.call(&Scalar::new(l.clone()), &Scalar::new(rr.clone())),
                }
            };
            check_bool_call(p.name(), mode.name(), &f, &want, &info)?;
            c.evals(rows.max(1) as u64);
        }
    }
    if any_true {
        c.class("some-row-matches");
        if multibyte {
            c.nontrivial();
        }
    }
    Ok(())
}

// ------------------------------------------------------------------------------------------------ regexp
fn rx_lit(t: &mut Tape, lits: &[char]) -> String {
    let c = if lits.is_empty() || t.chance(40) { *t.pick(SIGMA) } else { lits[t.below(lits.len())] };
    regex::escape(&c.to_string())
}
fn rx_atom(t: &mut Tape, lits: &[char], depth: u32, groups: bool) -> String {
    match t.below(14) {
        0..=4 => rx_lit(t, lits),
        5 => ".".into(),
        6 => {
            let a = rx_class_item(t, lits);
            let b = rx_class_item(t, lits);
            format!("[{}{}{}]", if t.chance(60) { "^" } else { "" }, a, b)
        }
        7 => t.pick(&["\\d", "\\w", "\\s", "\\W", "\\pL", "\\p{Lu}"]).to_string(),
        8 if depth < 2 && groups => format!("({})", rx_seq(t, lits, depth + 1, groups)),
        9 if depth < 2 => format!("(?:{}|{})", rx_seq(t, lits, depth + 1, false), rx_seq(t, lits, depth + 1, false)),
        10 => t.pick(&["^", "$", "\\b", "\\A", "\\z"]).to_string(),
        11 if depth < 2 && groups => format!("(?P<g{}>{})", depth, rx_lit(t, lits)),
        _ => rx_lit(t, lits),
    }
}
fn rx_class_item(t: &mut Tape, lits: &[char]) -> String {
    let c = if lits.is_empty() || t.bool() { *t.pick(&['a', 'b', 'A', 'é', 'k', 's', '0', 'σ']) } else { lits[t.below(lits.len())] };
    // inside a class escape everything that could be special
    if c.is_alphanumeric() {
        c.to_string()
    } else {
        format!("\\u{{{:x}}}", c as u32)
    }
}
fn rx_seq(t: &mut Tape, lits: &[char], depth: u32, groups: bool) -> String {
    let n = 1 + t.below(3);
    let mut s = String::new();
    for _ in 0..n {
        let a = rx_atom(t, lits, depth, groups);
        let anchor = matches!(a.as_str(), "^" | "$" | "\\b" | "\\A" | "\\z");
        s.push_str(&a);
        if !anchor {
            match t.below(10) {
                0 => s.push('*'),
                1 => s.push('+'),
                2 => s.push('?'),
                3 => s.push_str("{1,2}"),
                4 => s.push_str("*?"),
                _ => {}
            }
        }
    }
    s
}
const BAD_REGEX: [&str; 7] = ["(", "[a", "a{2,1}", "*a", "\\", "(?P<x>a)(?P<x>b)", "a)"];

fn gen_regex(t: &mut Tape, hay: &[Option<String>], groups: bool) -> String {
    if t.chance(12) {
        return t.pick(&BAD_REGEX).to_string();
    }
    if t.chance(14) {
        return String::new();
    }
    let cands: Vec<&String> = hay.iter().flatten().collect();
    let lits: Vec<char> = if cands.is_empty() { vec![] } else { cands[t.below(cands.len())].chars().take(12).collect() };
    rx_seq(t, &lits, 0, groups)
}
const FLAGS: [&str; 9] = ["i", "s", "m", "is", "U", "x", "im", "si", "u"];

/// reference: RegexBuilder with the options named by the flag letters
fn ref_regex(pattern: &str, flags: Option<&str>) -> Result<Regex, ()> {
    let mut b = RegexBuilder::new(pattern);
    for f in flags.unwrap_or("").chars() {
        match f {
            'i' => b.case_insensitive(true),
            's' => b.dot_matches_new_line(true),
            'm' => b.multi_line(true),
            'U' => b.swap_greed(true),
            'x' => b.ignore_whitespace(true),
            'u' => b.unicode(true),
            _ => return Err(()),
        };
    }
    b.build().map_err(|_| ())
}

macro_rules! with_str {
    ($arr:expr, |$x:ident| $body:expr) => {
        match $arr.data_type() {
            DataType::Utf8 => {
                let $x = $arr.as_string::<i32>();
                $body
            }
            DataType::LargeUtf8 => {
                let $x = $arr.as_string::<i64>();
                $body
            }
            _ => {
                let $x = $arr.as_string_view();
                $body
            }
        }
    };
}

fn call_is_match(a: &ArrayRef, r: &ArrayRef, f: Option<&ArrayRef>) -> Result<BooleanArray, ArrowError> {
    with_str!(a, |a| with_str!(r, |r| match f {
        None => regexp_is_match(a, r, None::<&StringArray>),
        Some(f) => with_str!(f, |f| regexp_is_match(a, r, Some(f))),
    }))
}
fn call_is_match_scalar(a: &ArrayRef, r: &str, f: Option<&str>) -> Result<BooleanArray, ArrowError> {
    with_str!(a, |a| regexp_is_match_scalar(a, r, f))
}

pub fn sub_regexp(c: &mut Case) -> CaseResult {
    let t = &mut c.tape;
    let which = t.below(3);
    let prof = gen_prof(t);
    let n = gen_rows(t);
    let hnull = gen_null_chance(t);
    let hay = gen_strcol(t, n, prof, hnull, false);
    let scalar = which == 1 || (which == 2 && t.bool());
    let groups = which == 2;
    let np = if scalar { 1 } else { n };
    let pool: Vec<String> = (0..1 + t.below(3)).map(|_| gen_regex(t, &hay, groups)).collect();
    let pnull = if scalar { *t.pick(&[0u32, 0, 0, 0, 40]) } else { gen_null_chance(t) };
    // is_match_scalar takes &str: no null pattern there
    let pnull = if which == 1 { 0 } else { pnull };
    let pats: Vec<Option<String>> = (0..np).map(|_| if pnull > 0 && t.chance(pnull) { None } else { Some(t.pick(&pool).clone()) }).collect();
    let with_flags = t.chance(110);
    // the same pattern with different flags in one call: a per-pattern cache must not ignore the flags
    let fpool: Vec<&str> = (0..1 + t.below(3)).map(|_| *t.pick(&FLAGS)).collect();
    let flags: Option<Vec<Option<String>>> = if with_flags { Some((0..np).map(|_| Some(t.pick(&fpool).to_string())).collect()) } else { None };
    let fl = |i: usize| -> Option<&str> { flags.as_ref().and_then(|f| f[if scalar { 0 } else { i }].as_deref()) };
    let pt = |i: usize| -> Option<&str> { pats[if scalar { 0 } else { i }].as_deref() };
    let kname = ["is_match", "is_match_scalar", "regexp_match"][which];
    c.class(kname);
    c.class(if scalar { "scalar-pattern" } else { "array-pattern" });
    if with_flags {
        c.class("with-flags");
    }
    c.describe(json!({"kernel": kname, "scalar": scalar, "hay": show_col(&hay), "regex": show_col(&pats), "flags": flags.as_ref().map(|f| show_col(f))}));
    // reference, row by row
    let mut must_err = false;
    let mut may_err = false;
    let mut compiled: Vec<(String, Option<String>, Result<Regex, ()>)> = vec![];
    let mut get = |p: &str, f: Option<&str>| -> Result<Regex, ()> {
        if let Some(e) = compiled.iter().find(|e| e.0 == p && e.1.as_deref() == f) {
            return e.2.clone();
        }
        let r = ref_regex(p, f);
        compiled.push((p.to_string(), f.map(|s| s.to_string()), r.clone()));
        r
    };
    for i in 0..np {
        if let Some(p) = pt(i) {
            if get(p, fl(i)).is_err() {
                may_err = true;
            }
        }
    }
    let mut want_b: Vec<Option<bool>> = vec![];
    let mut want_m: Vec<Option<Option<Vec<String>>>> = vec![]; // None = row not compared
    for i in 0..n {
        match (&hay[i], pt(i)) {
            (Some(h), Some(p)) => match get(p, fl(i)) {
                Ok(re) => {
                    want_b.push(Some(re.is_match(h)));
                    want_m.push(match re.captures(h) {
                        None => Some(None),
                        Some(caps) => {
                            if caps.len() > 1 {
                                let gs: Vec<Option<String>> = caps.iter().skip(1).map(|m| m.map(|m| m.as_str().to_string())).collect();
                                if gs.iter().all(|g| g.is_some()) { Some(Some(gs.into_iter().flatten().collect())) } else { None }
                            } else {
                                Some(Some(vec![caps.get(0).unwrap().as_str().to_string()]))
                            }
                        }
                    });
                }
                Err(()) => {
                    must_err = true;
                    want_b.push(None);
                    want_m.push(None);
                }
            },
            _ => {
                want_b.push(None);
                want_m.push(Some(None));
            }
        }
    }
    if may_err {
        c.class("invalid-regex");
    }
    if want_b.iter().any(|x| *x == Some(true)) {
        c.class("some-row-matches");
        if hay.iter().flatten().any(|h| has_multibyte(h)) {
            c.nontrivial();
        }
    }
    let e0 = c.tape.below(3);
    for k in 0..2 {
        let aenc = ENCS[(e0 + k) % 3];
        let a = mk(&mut c.tape, &LType::Utf8(aenc), &sv(&hay))?;
        let info = |i: Option<usize>| match i {
            Some(i) => format!("value {} regex {:?} flags {:?} [{:?}]", show(&hay[i]), pt(i), fl(i), aenc),
            None => format!("hay {} regex {} flags {:?} [{:?}]", show_col(&hay), show_col(&pats), flags, aenc),
        };
        let sig = ["regexp_is_match", "regexp_is_match_scalar", "regexp_match"][which];
        match which {
            0 | 1 => {
                let res = if which == 0 {
                    // regex and flag arrays may use any string encoding, independently of the value array
                    let renc = *c.tape.pick(&ENCS);
                    let fenc = *c.tape.pick(&ENCS);
                    let r = mk(&mut c.tape, &LType::Utf8(renc), &sv(&pats))?;
                    let f = match &flags {
                        Some(f) => Some(mk(&mut c.tape, &LType::Utf8(fenc), &sv(f))?),
                        None => None,
                    };
                    no_panic(sig, || call_is_match(&a, &r, f.as_ref()))?
                } else {
                    no_panic(sig, || call_is_match_scalar(&a, pt(0).unwrap(), fl(0)))?
                };
                match res {
                    Err(e) => ensure!(may_err, format!("{}:err", sig), "returned Err({}) although every regex compiles; {}", e, info(None)),
                    Ok(got) => {
                        ensure!(!must_err, format!("{}:no-err", sig), "returned Ok although a regex that does not compile had to be evaluated; {}", info(None));
                        check_valid(&got, sig)?;
                        ensure!(got.len() == n, format!("{}:len", sig), "{} rows for {}", got.len(), n);
                        for i in 0..n {
                            let g = if got.is_null(i) { None } else { Some(got.value(i)) };
                            if g != want_b[i] {
                                fail!(format!("{}:row", sig), "row {}: got {:?} expected {:?}; {}", i, g, want_b[i], info(Some(i)));
                            }
                        }
                        c.evals(n.max(1) as u64);
                    }
                }
            }
            _ => {
                let r = mk(&mut c.tape, &LType::Utf8(aenc), &sv(&pats))?;
                let f = match &flags {
                    Some(f) => Some(mk(&mut c.tape, &LType::Utf8(aenc), &sv(f))?),
                    None => None,
                };
                let res = no_panic(sig, || {
                    if scalar {
                        let rs = Scalar::new(r.clone());
                        match &f {
                            Some(f) => regexp_match(a.as_ref(), &rs, Some(&Scalar::new(f.clone()))),
                            None => regexp_match(a.as_ref(), &rs, None),
                        }
                    } else {
                        match &f {
                            Some(f) => regexp_match(a.as_ref(), &r, Some(f)),
                            None => regexp_match(a.as_ref(), &r, None),
                        }
                    }
                })?;
                match res {
                    Err(e) => ensure!(may_err, format!("{}:err", sig), "returned Err({}) although every regex compiles; {}", e, info(None)),
                    Ok(got) => {
                        ensure!(!must_err, format!("{}:no-err", sig), "returned Ok although a regex that does not compile had to be evaluated; {}", info(None));
                        check_valid(got.as_ref(), sig)?;
                        ensure!(got.len() == n, format!("{}:len", sig), "{} rows for {}", got.len(), n);
                        let item_ok = matches!(got.data_type(), DataType::List(f) if f.data_type() == a.data_type());
                        ensure!(item_ok, format!("{}:type", sig), "result type {} for input {}", got.data_type(), a.data_type());
                        let vals = no_panic("extract", || extract(got.as_ref()))?;
                        for i in 0..n {
                            let Some(w) = &want_m[i] else { continue };
                            let w = match w {
                                None => LValue::Null,
                                Some(v) => LValue::List(v.iter().map(|s| LValue::Str(s.clone())).collect()),
                            };
                            if scalar && pt(0).is_none() {
                                ensure!(vals[i].is_null(), format!("{}:null-regex", sig), "row {} is {:?} for a NULL regex", i, vals[i]);
                                continue;
                            }
                            if vals[i] != w {
                                fail!(format!("{}:row", sig), "row {}: got {:?} expected {:?}; {}", i, vals[i], w, info(Some(i)));
                            }
                        }
                        c.evals(n.max(1) as u64);
                    }
                }
            }
        }
    }
    Ok(())
}
