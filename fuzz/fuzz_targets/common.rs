// shared by the libFuzzer targets: run one sub-check oracle on the fuzzer's bytes (the entropy tape); failures whose
// signature is an open known finding are tolerated (so a campaign does not rediscover one defect forever)
use std::sync::OnceLock;
use vp_engine::runner::{install_panic_hook, load_known, Case, CaseResult, Tier};
use vp_engine::tape::Tape;

static KNOWN: OnceLock<Vec<String>> = OnceLock::new();

pub fn run(property: &'static str, data: &[u8], f: fn(&mut Case) -> CaseResult) {
    let known = KNOWN.get_or_init(|| {
        install_panic_hook();
        load_known(property).into_iter().filter(|k| k.status == "open").map(|k| k.signature).collect()
    });
    let mut c = Case::new(Tape::from_slice(data), Tier::Quick, false);
    if let Err(e) = f(&mut c) {
        if !known.contains(&e.sig) {
            // abort so that libFuzzer saves the input as a crash artifact
            eprintln!("ORACLE FAILURE [{}]: {}", e.sig, e.msg);
            std::process::abort();
        }
    }
}
